#!/venv/bin/python
"""tools/famcheck.py <candidate families.py>: import the candidate in place of nslmc.families, generate and RENDER every case of the
small families (quick and thorough) - a generator or renderer error must show here, not in a running check."""
import importlib.util, sys, time
sys.path.insert(0, "/verif")
import nslmc
spec = importlib.util.spec_from_file_location("nslmc.families", sys.argv[1])
mod = importlib.util.module_from_spec(spec)
sys.modules["nslmc.families"] = mod
spec.loader.exec_module(mod)
from nslmc import engine, lang
n = 0
for fam in ["D", "R", "O", "K", "C", "V", "M", "U", "G", "CG", "H", "DF", "X", "T", "WO", "WS", "WM", "WU", "LONG", "E1"]:
    for tier in ("quick", "thorough"):
        for case in mod.generate(fam, tier):
            if "src" not in case:
                lang.render(engine.case_prog(case), case.get("mode", "min"))
            n += 1
for fam, cap in (("F", 20000), ("N", 30000), ("S", 5000), ("W", 3000)):
    for i, case in enumerate(mod.generate(fam, "quick")):
        if i > cap:
            break
        if "src" not in case:
            lang.render(engine.case_prog(case), case.get("mode", "min"))
        n += 1
print("famcheck ok", n)
