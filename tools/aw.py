"""atomic rewrite of a /verif source file (checks may be running and importing it)"""
import os


def rw(path, fn):
    s = open(path).read()
    t = fn(s)
    assert t != s, "no change: " + path
    tmp = path + ".tmp~"
    open(tmp, "w").write(t)
    os.replace(tmp, path)


def rep(path, old, new, count=1):
    def f(s):
        assert s.count(old) == count, (path, s.count(old), old[:60])
        return s.replace(old, new)
    rw(path, f)


def rep_fam(old, new, count=1):
    """families.py: validate the candidate with tools/famcheck.py before it replaces the live file"""
    import subprocess
    path = "/verif/nslmc/families.py"
    s = open(path).read()
    assert s.count(old) == count, (s.count(old), old[:60])
    t = s.replace(old, new)
    cand = "/dev/shm/families_candidate.py"
    open(cand, "w").write(t)
    r = subprocess.run(["/verif/tools/famcheck.py", cand], stdout=subprocess.PIPE, stderr=subprocess.STDOUT)
    out = r.stdout.decode()
    if r.returncode != 0:
        raise SystemExit("famcheck FAILED\n" + out[-1500:])
    tmp = path + ".tmp~"
    open(tmp, "w").write(t)
    os.replace(tmp, path)
    print(out.strip().splitlines()[-1])
