#!/bin/bash
# tools/seedtest2.sh <dir with patch.diff [demo.py]> <check ids...>
#   like seedtest.sh, but the checks run against the scratch worktree (NSL_REPO) instead of a patched /repo, so several seeds can
#   be evaluated at the same time and /repo is never touched. Evidence written by these runs is restored afterwards by the caller.
d=$(realpath "$1"); shift
ids="$@"
set -u
wt=/tmp/wt/verify-$$
mkdir -p /tmp/wt
git -C /repo worktree add -q --detach $wt HEAD || exit 2
(
  cd $wt
  if [ -f $d/demo.py ]; then
    /venv/bin/python $d/demo.py >/dev/null 2>&1; echo "demo without change: exit $?"
  fi
  git apply $d/patch.diff || { echo "PATCH DOES NOT APPLY"; exit 3; }
  /venv/bin/python -m pytest -q -p no:cacheprovider 2>&1 | tail -1 | sed 's/^/suite with change: /'
  if [ -f $d/demo.py ]; then
    /venv/bin/python $d/demo.py >/dev/null 2>&1; echo "demo with change: exit $?"
  fi
) || { git -C /repo worktree remove --force $wt; exit 3; }
cd /verif
for id in $ids; do
  out=$(NSL_REPO=$wt NSLMC_DUMP=/tmp/seed-$id.json ./check $id --tier quick 2>&1); code=$?
  echo "$out" | grep -E "^(VIOLATION|HARNESS)" | head -3
  echo "$out" | grep -E "^  key:" | head -3
  echo "$out" | tail -1 | sed "s/^/[exit $code] /"
done
git -C /repo worktree remove --force $wt
