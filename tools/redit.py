#!/venv/bin/python
"""Line-ending preserving exact replace in a /repo file:  redit.py FILE  (reads OLD and NEW from a python file given as 2nd arg)
usage in python:  from redit import edit; edit('nsl/VM.py', old, new)"""
import sys


def edit(path, old, new, count=1, repo="/repo"):
    import os
    p = os.path.join(repo, path)
    s = open(p, newline="").read()
    crlf = "\r\n" in s
    if crlf:
        old = old.replace("\r\n", "\n").replace("\n", "\r\n")
        new = new.replace("\r\n", "\n").replace("\n", "\r\n")
    n = s.count(old)
    assert n == count, f"{path}: expected {count} occurrence(s) of the old text, found {n}"
    s = s.replace(old, new)
    open(p, "w", newline="").write(s)
    print(f"edited {path} ({'CRLF' if crlf else 'LF'})")
