#!/bin/bash
# tools/seedall.sh - re-run every kept seeded change against the checks recorded as detecting it; prints DETECTED / MISSED per pair
cd "$(dirname "$0")/.."
for d in seeded/*/; do
  ids=$(/venv/bin/python -c "import json,sys; print(' '.join(json.load(open('$d/meta.json')).get('detected_by') or [json.load(open('$d/meta.json'))['property']]))")
  out=$(tools/seedtest.sh $d $ids 2>&1)
  for id in $ids; do
    if echo "$out" | grep -q "^VIOLATION property=$id "; then echo "DETECTED $id $(basename $d)"; else echo "MISSED   $id $(basename $d)"; echo "$out" | tail -4; fi
  done
done
