#!/bin/bash
# tools/seedtest.sh <dir with patch.diff [demo.py]> <check ids...>
#   1. confirms in a scratch worktree that the patch applies, the suite still passes and the demo fails with / passes without it
#   2. applies the patch to /repo, runs the given checks (quick), and undoes it straight afterwards
d=$(realpath "$1"); shift
ids="$@"
set -u
if ! git -C /repo diff --quiet; then echo "REFUSING: /repo has uncommitted changes"; exit 2; fi
wt=/tmp/wt/verify-$$
git -C /repo worktree add -q --detach $wt HEAD || exit 2
(
  cd $wt
  if [ -f $d/demo.py ]; then
    /venv/bin/python $d/demo.py >/dev/null 2>&1; echo "demo without change: exit $?"
  fi
  git apply $d/patch.diff || { echo "PATCH DOES NOT APPLY"; exit 3; }
  /venv/bin/python -m pytest -q -p no:cacheprovider 2>&1 | tail -1 | sed 's/^/suite with change: /'
  if [ -f $d/demo.py ]; then
    /venv/bin/python $d/demo.py >/dev/null 2>&1; echo "demo with change: exit $?"
  fi
)
git -C /repo worktree remove --force $wt
git -C /repo apply $d/patch.diff || { echo "cannot apply to /repo"; exit 3; }
cd /verif
for id in $ids; do
  out=$(NSLMC_DUMP=/tmp/seed-$id.json ./check $id --tier quick 2>&1); code=$?
  echo "$out" | grep -E "^(VIOLATION|HARNESS)" | head -3
  echo "$out" | grep -E "^  key:" | head -3
  echo "$out" | tail -1 | sed "s/^/[exit $code] /"
done
git -C /repo checkout -- .
git -C /repo status --short | head -3
git -C /verif checkout -- evidence 2>/dev/null
