#!/venv/bin/python
"""Regenerates the generated blocks of DESIGN.md: the fixes list (from findings/known_findings.json)
and the seeded-change table (from seeded/*/meta.json)."""
import glob
import json
import os
import re

V = os.path.dirname(os.path.dirname(os.path.abspath(__file__)))


def block(s, name, body):
    return re.sub(rf"<!-- {name}:BEGIN -->.*?<!-- {name}:END -->", f"<!-- {name}:BEGIN -->\n{body}\n<!-- {name}:END -->", s, flags=re.S)


def main():
    s = open(os.path.join(V, "DESIGN.md")).read()
    kf = json.load(open(os.path.join(V, "findings", "known_findings.json")))
    lines = []
    for e in kf["fixed"]:
        m = re.match(r"fixed: property=(\S+) (\S+) (.*)", e)
        lines.append(f"* `{m.group(2)}` ({m.group(1)}) {m.group(3)}")
    s = block(s, "FIXES", "\n".join(lines))
    rows = ["| seeded change | breaks | what it needs to manifest | detected by (quick tier) |", "|---|---|---|---|"]
    for mf in sorted(glob.glob(os.path.join(V, "seeded", "*", "meta.json"))):
        m = json.load(open(mf))
        name = os.path.basename(os.path.dirname(mf))
        det = m.get("detected_by") or "-"
        if isinstance(det, list):
            det = ", ".join(det) or "NOT DETECTED"
        rows.append(f"| `{name}` {m.get('summary', '')[:160]} | {m.get('property')} | {str(m.get('needs', ''))[:160]} | {det}{(' - ' + m['note']) if m.get('note') else ''} |")
    s = block(s, "SEEDED", "\n".join(rows))
    open(os.path.join(V, "DESIGN.md"), "w").write(s)


if __name__ == "__main__":
    main()
