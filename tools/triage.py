#!/venv/bin/python
"""tools/triage.py DUMP.json  - one witness per (family, kind, where) class of a NSLMC_DUMP file."""
import json, sys
seen = set()
for d in json.load(open(sys.argv[1])):
    parts = d["key"].split("|")
    k = tuple(parts[1:4])
    if k in seen:
        continue
    seen.add(k)
    print("=====", d["key"])
    src = d.get("source", "")
    mark = sys.argv[2] if len(sys.argv) > 2 else None
    if mark and mark in src:
        i = src.find(mark)
        print(src[i:i + 200])
    else:
        print(src[-900:])
    print("IN", d.get("inputs"), "\nEXP", d.get("expected"), "\nOBS", d.get("observed"))
