#!/bin/bash
# tools/runall.sh [quick|thorough] [ids...]  - run checks in sequence, print one line each
cd "$(dirname "$0")/.."
tier=${1:-quick}; shift
ids=${@:-C01 C02 C03 C04 C05 C06 C07 C08 C09 C10 C11 C12 C13 C14 C15 C16 C17 C18 C19 C20}
rc=0
for id in $ids; do
  out=$(./check $id --tier $tier 2>&1); code=$?
  echo "$out" | grep -E "^(VIOLATION|KNOWN-FINDING|HARNESS)" | head -5
  echo "$out" | tail -1 | sed "s/^/[exit $code] /"
  [ $code -ne 0 ] && rc=1
done
exit $rc
