#!/venv/bin/python
"""tools/keep_seed.py <agent out dir> <name> <detected-by: comma list or NONE> [note]
Copies patch.diff / demo.py / meta.json of a confirmed seeded change into /verif/seeded/<name>/ and records what caught it."""
import json, os, shutil, sys
src, name, det = sys.argv[1:4]
note = sys.argv[4] if len(sys.argv) > 4 else ""
dst = os.path.join(os.path.dirname(os.path.dirname(os.path.abspath(__file__))), "seeded", name)
os.makedirs(dst, exist_ok=True)
for f in ("patch.diff", "demo.py"):
    shutil.copy(os.path.join(src, f), os.path.join(dst, f))
m = json.load(open(os.path.join(src, "meta.json")))
m["detected_by"] = [] if det == "NONE" else det.split(",")
m["note"] = note
m["confirmed"] = ("tools/seedtest.sh: patch applies to a scratch worktree of /repo HEAD, test suite still '82 passed', demo.py exits 0 without and non-zero with "
                  "the change; then applied to /repo (git apply), quick checks run, undone (git checkout -- .)")
m["written_by"] = "independent sub-agent given only the property text and a scratch worktree"
json.dump(m, open(os.path.join(dst, "meta.json"), "w"), indent=1)
print("kept", dst)
