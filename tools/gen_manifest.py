#!/venv/bin/python
"""Regenerates MANIFEST.json from the table below (run after adding a check)."""
import json
import os
import sys

VERIF = os.path.dirname(os.path.dirname(os.path.abspath(__file__)))
sys.path.insert(0, VERIF)

CHECKS = {
    "C19": dict(
        category="exploration",
        technique="bounded-exhaustive enumeration of writer inputs against a textbook LEB128/UTF-8 decoder (small-scope model checking of a sequential function)",
        text="Every integer in the dense range and in the +-130 windows round every +-2^k, every identifier length and every "
             "payload length in the swept ranges is written by the real writer and decoded by an independent decoder; the space "
             "is enumerated completely, so within the bound this is a coverage statement, not a sample.",
        note="Trusted: nslmc/leb.py and the sizes-only walker in nslmc/wasmref.py. Not covered: integers outside the dense range "
             "and windows (the encoder has no value-dependent branches other than per 7-bit group, which the windows cover).",
        ref="DESIGN.md section 4, C19",
    ),
}

CHECKS["C08"] = dict(
    category="exploration",
    technique="bounded-exhaustive enumeration of operator sequences, parenthesisations, embeddings and layouts against a precedence-climbing reference parser and reference interpreter",
    text="All 169 pairs, 2197 triples and 28561 quadruples of the 13 binary operators, every parenthesisation the grammar can spell, "
         "assignment right-hand sides, 11 embeddings and the layout spaces are enumerated completely; each text goes through the real "
         "parser (tree shape) and, for pairs/triples, through compiler and VM (value on a grid that separates the groupings).",
    note="Trusted: the 30-line precedence-climbing parser and refsem. Operands are identifiers; expressions with more than four "
         "operators are outside the bound.",
    ref="DESIGN.md section 4, C08",
)

CHECKS["C01"] = dict(
    category="exploration",
    technique="bounded-exhaustive enumeration of programs and inputs (expression trees, statement skeletons, storage x assignment grids) against a reference interpreter",
    text="Four program families are enumerated completely up to the stated tree sizes; every program is compiled, linked and run "
         "on a fresh VM for every input of its grid, and return value plus all globals are compared with a reference interpreter "
         "written over the generator's own AST. Within the bound this is every program of the space, not a sample.",
    note="Trusted: nslmc/refsem.py (C-like semantics as listed in the statement) and the renderer. Behaviour the statement leaves "
         "open (DESIGN.md R1) is executed but not compared. Programs larger than the bounds and values outside the grids are not covered.",
    ref="DESIGN.md section 4, C01",
)

CHECKS["C02"] = dict(
    category="exploration",
    technique="bounded-exhaustive program enumeration with a differential oracle (optimize off vs on), incl. a complete store->load x consumer-operand context grid",
    text="Every program of the enumerated families, and every cell of the store->load context grid (variable scope x type x consumer "
         "operand position x chain length x placement) and of the constant-cast site grid, is compiled at both settings; decisions, "
         "return values and all globals must agree on every input. The space is enumerated completely.",
    note="Trusted: the unoptimised compilation as oracle; VM determinism. Both sides failing is left to C05.",
    ref="DESIGN.md section 4, C02",
)
CHECKS["C14"] = dict(
    category="exploration",
    technique="bounded-exhaustive program enumeration; per function an exhaustive all-paths must-defined fixpoint over the CFG plus structural rules",
    text="Every function of every module compiled from the enumerated families, at both optimisation levels, is checked against the "
         "structural rules and a greatest-fixpoint must-defined analysis over its instruction-level CFG (all paths, loops included).",
    note="Trusted: nslmc/irwf.py and its model of the VM's control transfer (block layout order, fall-through, branch, return). "
         "References compared by number, as the VM does.",
    ref="DESIGN.md section 4, C14",
)

CHECKS["C09"] = dict(
    category="exploration",
    technique="complete enumeration of a finite function (operator x type x type) against a rule table; end-to-end over all spellable triples",
    text="The typing function is total over a finite domain: all 51597 internal triples and all 2548 spellable triples are enumerated, "
         "so there is no bound at the typing interface. End to end the compile decision, the IR types and the overload picked by "
         "probe(a OP b) (statically in the call instruction and dynamically on the VM) are compared with a table transcribed from the statement.",
    note="Trusted: the rule table in nslmc/props/c09.py (oracle) with the cells the statement leaves open marked UNSPECIFIED.",
    ref="DESIGN.md section 4, C09",
)

CHECKS["C10"] = dict(
    category="exploration",
    technique="bounded-exhaustive enumeration of ordered overload sets x argument lists against a reference resolution rule (interface and end to end)",
    text="Every ordered set of 1-3 distinct signatures with <=2 parameters over a 6-type universe (75895 ordered sets) x all 43 "
         "argument lists is resolved through the real Scope (3.3 M calls); the same over a smaller universe is compiled end to end and "
         "the chosen overload observed statically and dynamically. Complete within the bound; order independence follows because every order is enumerated.",
    note="Trusted: the 15-line reference rule (viable, cost, unique minimum). Overload sets larger than 3 or arities above 2 are outside the bound.",
    ref="DESIGN.md section 4, C10",
)
CHECKS["C11"] = dict(
    category="exploration",
    technique="bounded-exhaustive enumeration of statement trees with break/continue at every leaf position; lexical oracle plus reference interpreter for accepted trees",
    text="All statement skeletons up to the node bound with one or two break/continue leaves anywhere, braced and unbraced, and "
         "two-function variants; the decision is compared with a lexical oracle and accepted programs are run against the reference.",
    note="Trusted: the lexical oracle on the generator's skeleton and refsem.",
    ref="DESIGN.md section 4, C11",
)
CHECKS["C12"] = dict(
    category="exploration",
    technique="bounded-exhaustive enumeration of scope skeletons x declaration positions x names; scope-stack oracle plus reference interpreter",
    text="Every scope skeleton up to the bound, one additional declaration at every statement position, its name ranging over every "
         "name of the program plus field/foreign/fresh names: decision vs scope-stack oracle; accepted programs run against the "
         "lexically binding reference interpreter with distinct values per declaration.",
    note="Trusted: the scope-stack simulation in the generator and refsem.",
    ref="DESIGN.md section 4, C12",
)
CHECKS["C13"] = dict(
    category="exploration",
    technique="complete grids (array shapes x index constants x chain positions; index expression types; all swizzle masks) against a decision rule",
    text="Finite grids enumerated completely: every constant from below zero to beyond the size at every dimension of every shape, "
         "every index expression type at every chain position, every mask string up to the length bound on every vector size.",
    note="Trusted: the three-line decision rule. Array sizes above 3 and masks longer than 4 are outside the grid.",
    ref="DESIGN.md section 4, C13",
)

CHECKS["C20"] = dict(
    category="exploration",
    technique="bounded-exhaustive enumeration of texts x offsets/spans and of layouts (deviation-bounded) of fixed token sequences; positions computed by construction",
    text="Every text up to the length bound over {a, newline} with every offset and span, and every placement of up to 2 (3) deviating "
         "gaps plus leading text for token sequences covering each located construct: node ranges, parent hulls and the redeclaration "
         "diagnostic are compared with positions the layout renderer knows by construction.",
    note="Trusted: the layout renderer and the reference line counter. The printed convention (1-based, end-exclusive) is taken as given.",
    ref="DESIGN.md section 4, C20",
)

CHECKS["C03"] = dict(
    category="exploration",
    technique="bounded-exhaustive product of call shapes x callee actions x caller read positions x types against a reference interpreter",
    text="The complete product of call shape, parameter type, callee action and the caller variable read afterwards (every parameter "
         "and local, selected by an input) is compiled and run; results are compared with a by-value, fresh-frame reference interpreter.",
    note="Trusted: refsem call semantics. Call graphs beyond the listed shapes (depth > 4, more than two functions in a cycle) are outside the bound.",
    ref="DESIGN.md section 4, C03",
)
CHECKS["C04"] = dict(
    category="exploration",
    technique="complete grids (all swizzle masks, indices, operators, constructor compositions, copy/mutate pairs) against a reference interpreter",
    text="Finite grids enumerated completely: every read mask of length 1-4, every non-repeating write mask on every target kind, every "
         "index, every listed operator/shape combination, every constructor composition, every copy-then-mutate pair; all variables in scope are read back.",
    note="Trusted: refsem vector/matrix semantics; component values are distinct dyadic numbers.",
    ref="DESIGN.md section 4, C04",
)

CHECKS["C05"] = dict(
    category="exploration",
    technique="bounded-exhaustive enumeration of programs incl. complete type grids at the front end's fence, with a safety oracle (no failure after the AST gate, at both optimisation levels)",
    text="All program families plus complete grids over operator x type x type, assignment/initialisation/return/call between every "
         "pair of types, every constructor argument list up to 4 arguments, every element-selection form on every type, ++/-- and every "
         "statement form with a condition of every type: whatever the front end accepts must lower, pass the IR passes at both "
         "optimisation levels, link and run on type-correct inputs without an internal failure.",
    note="Trusted: classification of a failure as 'after the gate' by the file of its innermost nsl frame (R2). Only crash freedom is judged here, not values.",
    ref="DESIGN.md section 4, C05",
)

CHECKS["C15"] = dict(
    category="model_checking",
    technique="explicit-state breadth-first search over histories of host operations on real VirtualMachine objects, canonical-state deduplication, reference state machine compared in every state",
    text="States are canonical forms of all mutable state reachable from two VMs of one linked program (globals, VM object graphs, "
         "module-level state); transitions call the real SetGlobal/Invoke; every history is replayed on fresh VMs beside a reference "
         "state machine and all globals of both VMs plus the return value are compared after every step. Thorough runs to closure "
         "(409600 + 9 + 2025 states, 13.9 M transitions); quick explores to depth 4/closure/6.",
    note="Trusted: refsem and the three driver programs' finiteness (wrap-around counters). Model traces = implementation traces (the search "
         "runs on the implementation; traces_validated_against_impl = transitions).",
    ref="DESIGN.md section 4, C15",
)

CHECKS["C16"] = dict(
    category="model_checking",
    technique="exhaustive enumeration of module partitions x import placements x link histories (every subset and order of AddModule) on the real compiler, loader and linker, against the single-module program",
    text="Every partition of six small call-DAG programs into <=3 modules with an acyclic import graph is compiled separately, stored and "
         "linked through every history of AddModule calls (every order, every set of explicitly added modules) with a counting loader; "
         "symbol tables, load counts, VM behaviour and order independence are compared with the single-module compilation; duplicate "
         "definitions must be rejected.",
    note="Trusted: the single-module compilation as oracle. States = prefixes of link histories on the real Linker; every history is executed on the implementation.",
    ref="DESIGN.md section 4, C16",
)

CHECKS["C17"] = dict(
    category="exploration",
    technique="bounded-exhaustive enumeration of accepted programs x optimisation levels through the real compiler driver, reload in the same and in another process (different hash seed), listing and behaviour equality",
    text="Every program of the enumerated families (about 5000 in quick) at -O 0 and -O 1 is written by nslc.py itself and reloaded by "
         "name in-process and in a second interpreter with another hash seed; listing, metadata and VM results on the input grid must "
         "match the in-memory module; plus genuine nslc.py/nslr.py subprocess runs and a size sweep (1-400 statements, 2-120 operands).",
    note="Trusted: pickle.dump interposition to observe the written object; the in-memory module as oracle.",
    ref="DESIGN.md section 4, C17",
)

CHECKS["C18"] = dict(
    category="model_checking",
    technique="explicit-state search over histories of compilations in forked pristine interpreters (state = snapshot of all process-global mutable state + table cache), repeated for every import-set iteration order and table-cache state; baseline from fresh processes",
    text="Transitions are real compilations with fresh Compiler objects; each history is replayed in a fork of a pristine interpreter; "
         "every transition's listing / wasm bytes / failure class must equal the baseline of a fresh process. Thorough: BFS with "
         "canonical-state deduplication to closure in every configuration plus all 24 cumulative chains; quick: depth 1 plus chains. "
         "Configurations: hash seeds realising all 6 (and 2) iteration orders of the import sets; cache present / absent / written for the other start symbol.",
    note="Trusted: the global-state snapshot (module globals, class attributes, default arguments of nsl and ply, cache files) as state abstraction - "
         "the cumulative chains do not depend on it. Not covered: hash seeds beyond the set-order classes; a corrupted table file.",
    ref="DESIGN.md section 4, C18",
)

CHECKS["C06"] = dict(
    category="exploration",
    technique="bounded-exhaustive enumeration of the backend's scalar straight-line subset x boundary inputs, three-way differential (reference evaluation in binary32, wasmtime, independent wasm interpreter); one observable program per construct outside the subset",
    text="Every signature of 0-3 int/float parameters x every expression tree up to 2 operators over the backend's operators with "
         "LEB-boundary constants is compiled to wasm and executed on wasmtime and on an independent interpreter for the complete (arity "
         "<=2) or pairwise (arity 3) grid of boundary inputs; outside the subset each construct must agree with the VM or be refused.",
    note="Trusted: wasmtime as conforming engine, nslmc/wasmref.py as second executor, w_eval as reference. Inputs whose result depends on "
         "binary32/binary64 rounding or overflows are UNSPECIFIED (counted in the evidence).",
    ref="DESIGN.md section 4, C06",
)
CHECKS["C07"] = dict(
    category="exploration",
    technique="bounded-exhaustive enumeration of emitted modules (subset programs, shape grid of parameter/local type interleavings, constructs outside the subset) checked by an independent WebAssembly 1.0 decoder and validator",
    text="Every module emitted for the enumerated programs is decoded (preamble, section order, exact sizes, vector counts, function/code "
         "agreement) and validated (index ranges, export targets, stack type-checking of each body against its signature) by a validator "
         "written from the 1.0 specification; wasmtime's validator is a cross-check that may only reject what the reference rejects.",
    note="Trusted: nslmc/wasmref.py. Programs outside the enumerated families are not covered.",
    ref="DESIGN.md section 4, C07",
)

PENDING = {}


def main():
    props = [json.loads(l) for l in open(os.path.join(VERIF, "properties.jsonl"))]
    checks = []
    na = []
    for p in props:
        pid = p["id"]
        c = CHECKS.get(pid)
        if c is None:
            na.append({"property_id": pid, "reason": PENDING.get(pid, "check not built yet in this tree (planned, see DESIGN.md section 4)")})
            continue
        checks.append({
            "property_id": pid,
            "quick_cmd": f"./check {pid} --tier quick",
            "thorough_cmd": f"./check {pid} --tier thorough",
            "evidence_file": f"/verif/evidence/{pid}.json",
            "replay_cmd_template": f"./check {pid} --replay {{path}}",
            "engine": "nslmc",
            "level_claimed": {"category": c["category"], "text": c["text"], "design_ref": c["ref"]},
            "level_note": c["note"],
            "technique": c["technique"],
        })
    doc = {
        "version": 1,
        "setup_cmd": "(gcc -O2 -shared -fPIC -o native/arena.so native/arena.c || true) && /venv/bin/python -c \"import ply, sys; sys.path.insert(0, '/verif'); import nslmc.cli\"",
        "hooks": {
            "guard": "ANTERU_NSL_VERIF",
            "enable": "no source hooks: checks import a snapshot of /repo's working tree and observe public API only (the harness sets ANTERU_NSL_VERIF=1 for uniformity; nothing in /repo reads it)",
            "baseline_off_cmd": "cd /repo && /venv/bin/python -m pytest -ra -q -p no:cacheprovider --timeout=900 --continue-on-collection-errors",
            "source_commits": [],
            "add_only": True,
        },
        "engines": [{
            "name": "nslmc",
            "path": "/verif/nslmc",
            "serves_properties": sorted(CHECKS),
            "kind_free_text": "hand-written bounded-exhaustive enumerators and explicit-state (BFS) explorer over the real nsl API, with reference models in Python",
        }],
        "checks": checks,
        "not_applicable": na,
        "notes": "All checks run under /venv/bin/python on a private snapshot of /repo's working tree (see DESIGN.md R4). "
                 "Genuine defects that were repaired are 'fix:' commits in /repo and listed under 'fixed' in findings/known_findings.json.",
    }
    with open(os.path.join(VERIF, "MANIFEST.json"), "w") as f:
        json.dump(doc, f, indent=1)
        f.write("\n")
    try:
        import jsonschema
        jsonschema.validate(doc, json.load(open("/root/.vp/MANIFEST.schema.json")))
        print("MANIFEST.json valid;", len(checks), "checks,", len(na), "not_applicable")
    except ImportError:
        print("written (jsonschema not available here)")


if __name__ == "__main__":
    main()
