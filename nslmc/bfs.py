"""Explicit-state breadth-first explorer over real objects (DESIGN.md section 1, form B).

A state is identified by a history (tuple of events).  expand(history) is executed in a worker:
it rebuilds the state by replaying the history on fresh objects, then applies every enabled event
in turn (each on its own fresh replay - live objects are not copied) and returns, per event,
the canonical form of the successor and any invariant violation.  The parent deduplicates on the
canonical form, so the search is level-synchronous BFS; the first history reaching a canonical
state is the shortest.  Successor canonical forms reached by different histories are compared for
*equal observable outcome* by the property module (differential oracle)."""
import time

from . import pool


class Result:
    def __init__(self):
        self.states = 0
        self.transitions = 0
        self.max_depth = 0
        self.closed = False
        self.violations = []       # dicts with key + history
        self.terminal = 0
        self.samples = []
        self.counts = {}
        self.distinct_outcomes = set()
        self.per_depth = []


def explore(expand_fn, initial_canon, max_depth, max_states=None, time_budget=None, chunk=8, extra=None):
    """expand_fn(job) with job = (list of histories, extra) -> list of (history, [(event, canon, viol, terminal, outcome)])."""
    res = Result()
    seen = {initial_canon}
    frontier = [()]
    res.states = 1
    t0 = time.time()
    depth = 0
    while frontier and depth < max_depth:
        # Every history is replayed on fresh objects, but the code under test may keep state outside those objects (class or
        # module level).  Jobs therefore run in a fresh interpreter each, and a violation carries its job: re-executing the job in
        # another fresh process replays exactly the same sequence of histories (cli --rejob).
        per = max(chunk, min(256, -(-len(frontier) // (pool.NPROC * 2))))
        jobs = [(tuple(frontier[i:i + per]), extra) for i in range(0, len(frontier), per)]
        outs = pool.pmap(expand_fn, jobs, hermetic=True)
        nxt = []
        for job, out in zip(jobs, outs):
            for hist, succs in out:
                for ev, canon, viol, terminal, outcome in succs:
                    res.transitions += 1
                    res.distinct_outcomes.add(outcome)
                    if viol is not None:
                        res.counts[viol["key"]] = res.counts.get(viol["key"], 0) + 1
                        if res.counts[viol["key"]] <= 2:
                            viol = dict(viol)
                            viol["history"] = list(hist) + [ev]
                            viol["job"] = {"fn": f"{expand_fn.__module__}:{expand_fn.__name__}", "arg": job}
                            res.violations.append(viol)
                        continue
                    if terminal:
                        res.terminal += 1
                        continue
                    if canon not in seen:
                        seen.add(canon)
                        nxt.append(tuple(hist) + (ev,))
                        if len(res.samples) < 3 and len(hist) >= 1:
                            res.samples.append(list(hist) + [ev])
        depth += 1
        res.per_depth.append(len(nxt))
        res.states = len(seen)
        res.max_depth = depth if nxt else res.max_depth
        if nxt:
            res.max_depth = depth
        frontier = nxt
        if max_states and len(seen) >= max_states:
            break
        if time_budget and time.time() - t0 > time_budget:
            break
    res.closed = not frontier
    return res
