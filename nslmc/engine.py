"""Case runner shared by the program-enumeration properties.

A *case* is a dict
  fam      family name
  desc     shape descriptor used in the finding key (coarse feature class, no line numbers)
  prog     miniast program skeleton WITHOUT the unit functions: dict(structs, globals, funcs=[helpers])
  units    list of units; a unit = dict(funcs=[Func...], entry=name, inputs=[(args, globals)], desc=str|None)
  mode     'min' | 'full' render mode
Several units may be packed into one module (DESIGN.md 3.2); on any compile problem the pack is
bisected so packing never changes a verdict.
"""
import collections
import copy
import itertools

from . import lang, pool
from .nslapi import compile_src, link, new_vm
from .refsem import Interp, RefError, Unspec, values_equal

INVOKE_LIMIT = 2.0


def case_prog(case, units=None):
    units = case["units"] if units is None else units
    p = case.get("prog") or {}
    return {"structs": list(p.get("structs", [])), "globals": list(p.get("globals", [])), "imports": list(p.get("imports", [])),
            "funcs": list(p.get("funcs", [])) + [f for u in units for f in u["funcs"]]}


def case_source(case, units=None):
    if "src" in case and units is None:
        return case["src"]
    return lang.render(case_prog(case, units), case.get("mode", "min"))


def ref_outcome(prog, entry, args, globals_):
    """-> ('ok', ret, globals) | ('unspec', reason)"""
    it = Interp(prog)
    g = copy.deepcopy(globals_)
    try:
        ret = it.invoke(entry, copy.deepcopy(args), g)
    except Unspec as u:
        return ("unspec", str(u), it.stats)
    except RecursionError:
        return ("unspec", "reference recursion", it.stats)
    return ("ok", ret, g, it.stats)


def vm_outcome(program, entry, args, globals_):
    """-> ('ok', ret, globals) | ('exc', class, where) | ('timeout',)"""
    from .nslapi import classify

    vm = new_vm(program)
    try:
        for k, v in globals_.items():
            vm.SetGlobal(k, copy.deepcopy(v))
        with pool.time_limit(INVOKE_LIMIT):
            ret = vm.Invoke(entry, **copy.deepcopy(args))
        g = {k: vm.GetGlobal(k) for k in globals_}
    except pool.Timeout:
        return ("timeout",)
    except RecursionError:
        return ("exc", "RecursionError", "VM")
    except BaseException as e:
        _, cls, fn, _ = classify(e)
        return ("exc", cls, fn)
    return ("ok", ret, g)


def short(v, n=300):
    s = repr(v)
    return s if len(s) <= n else s[:n] + "..."


class Agg:
    """Per-worker aggregation: evaluation counts, capped failure records, stats."""

    def __init__(self, per_key=2):
        self.evals = 0
        self.nontrivial = 0
        self.fails = []
        self.counts = collections.Counter()
        self.stats = collections.Counter()
        self.per_key = per_key
        self.samples = []

    def fail(self, rec):
        k = rec["key"]
        self.counts[k] += 1
        if self.counts[k] <= self.per_key:
            self.fails.append(rec)

    def result(self):
        return {"evals": self.evals, "nontrivial": self.nontrivial, "fails": self.fails,
                "counts": dict(self.counts), "stats": dict(self.stats), "samples": self.samples[:2]}


def merge(results):
    tot = Agg()
    seen = set()
    for r in results:
        tot.evals += r["evals"]
        tot.nontrivial += r["nontrivial"]
        for f in r["fails"]:
            if f["key"] not in seen:
                seen.add(f["key"])
                tot.fails.append(f)
        tot.counts.update(r["counts"])
        tot.stats.update(r["stats"])
        tot.samples += r["samples"]
    return tot


# ---------------------------------------------------------------------------------------------
# checker: compiled program vs reference interpreter (C01, C03, C04, C11-run, C12-run)
# ---------------------------------------------------------------------------------------------
def check_ref(prop, case, agg, options=None, units=None):
    units = case["units"] if units is None else units
    if "src" in case:
        src = case["src"]
    else:
        src = lang.render(case_prog(case, units), case.get("mode", "min"))
    res = compile_src(src, options)
    if not res.ok:
        if len(units) > 1:
            h = len(units) // 2
            check_ref(prop, case, agg, options, units[:h])
            check_ref(prop, case, agg, options, units[h:])
            return
        u = units[0]
        agg.evals += 1
        agg.fail({"key": f"{prop}|{case['fam']}|not-compiled|{res.cls()}|{u.get('desc') or case['desc']}",
                  "source": src, "options": options or {}, "expected": "program of the covered language compiles",
                  "observed": f"{res.cls()} {res.msg or ''}"})
        return
    try:
        program = link(res.module)
    except BaseException as e:
        agg.evals += 1
        agg.fail({"key": f"{prop}|{case['fam']}|link-failed|{type(e).__name__}|{case['desc']}", "source": src,
                  "options": options or {}, "expected": "links", "observed": repr(e)[:200]})
        return
    prog = case_prog(case, units)
    for u in units:
        desc = u.get("desc") or case["desc"]
        for args, globs in u["inputs"]:
            agg.evals += 1
            ref = ref_outcome(prog, u["entry"], args, globs)
            agg.stats.update(ref[-1])
            if ref[0] == "unspec":
                agg.stats["unspecified:" + ref[1]] += 1
                continue
            agg.nontrivial += 1
            got = vm_outcome(program, u["entry"], args, globs)
            rec = None
            if got[0] == "timeout":
                rec = ("timeout", "VM", "does not terminate within %.0fs (reference finished)" % INVOKE_LIMIT)
            elif got[0] == "exc":
                rec = ("vm-exception", f"{got[1]}@{got[2]}", f"{got[1]} in {got[2]}")
            elif not values_equal(got[1], ref[1]):
                rec = ("wrong-value", "return", short(got[1]))
            elif not values_equal(got[2], ref[2]):
                rec = ("wrong-global", "globals", short(got[2]))
            if rec:
                agg.fail({"key": f"{prop}|{case['fam']}|{rec[0]}|{rec[1]}|{desc}", "source": src if len(units) == 1 else
                          lang.render(case_prog(case, [u]), case.get("mode", "min")),
                          "options": options or {}, "entry": u["entry"], "inputs": {"args": args, "globals": globs},
                          "expected": {"return": ref[1], "globals": ref[2]}, "observed": rec[2]})
                break
    # the same invocations once more on ONE VM, forwards and then backwards: what a function computes does not depend on which
    # functions (or which inputs) the VM ran before
    todo = [(u, a, g) for u in units for a, g in u["inputs"]]
    if len(todo) > 64:
        todo = [(u, a, g) for u in units for a, g in u["inputs"][:1]]       # many functions in the module: the first input of each
    if 2 <= len(todo) <= 64 and not any(f.get("source") == src for f in agg.fails[-3:]):
        vm = new_vm(program)
        for u, args, globs in todo + todo[::-1]:
            ref = ref_outcome(prog, u["entry"], args, globs)
            if ref[0] != "ok":
                continue
            try:
                for k, v in globs.items():
                    vm.SetGlobal(k, copy.deepcopy(v))
                with pool.time_limit(INVOKE_LIMIT):
                    got = vm.Invoke(u["entry"], **copy.deepcopy(args))
            except BaseException as e:
                got = f"<<{type(e).__name__}>>"
            agg.evals += 1
            if isinstance(got, str) and got.startswith("<<") or not values_equal(got, ref[1]):
                agg.fail({"key": f"{prop}|{case['fam']}|wrong-value-on-a-reused-vm|return|{u.get('desc') or case['desc']}", "source": src, "options": options or {}, "entry": u["entry"],
                          "inputs": {"args": args, "globals": globs}, "reused_vm": [[x["entry"], a, g] for x, a, g in todo], "expected": {"return": ref[1], "globals": ref[2]},
                          "observed": f"{short(got)} on a VM that had already run the case's other invocations"})
                break
    if len(agg.samples) < 2:
        agg.samples.append({"source": src[:600], "entry": units[0]["entry"], "inputs": short(units[0]["inputs"][:2], 200)})


def replay_ref(rec, verbose=True):
    """Re-run a check_ref failure record without the explorer."""
    src = rec["source"]
    res = compile_src(src, rec.get("options"))
    if not res.ok:
        if verbose:
            print("compile:", res.cls(), res.msg)
        return "not-compiled" in rec["key"]
    if "inputs" not in rec:
        return False
    program = link(res.module)
    args, globs = rec["inputs"]["args"], rec["inputs"]["globals"]
    if "reused_vm" in rec:
        vm = new_vm(program)
        seq = rec["reused_vm"]
        last = None
        for entry, a, g in seq + seq[::-1]:
            try:
                for k, v in g.items():
                    vm.SetGlobal(k, copy.deepcopy(v))
                with pool.time_limit(INVOKE_LIMIT):
                    r = vm.Invoke(entry, **copy.deepcopy(a))
            except BaseException as e:
                r = f"<<{type(e).__name__}>>"
            if entry == rec["entry"] and a == args and g == globs and (isinstance(r, str) or not values_equal(r, rec["expected"]["return"])):
                if verbose:
                    print(src, "\nsequence on one VM:", seq, "\nexpected", rec["expected"], "observed", r)
                return True
        return False
    got = vm_outcome(program, rec["entry"], args, globs)
    exp = rec["expected"]
    bad = got[0] != "ok" or not values_equal(got[1], exp["return"]) or not values_equal(got[2], exp["globals"])
    if verbose:
        print(src)
        print("inputs", rec["inputs"], "\nexpected", exp, "\nobserved", got)
        print(pytest_text(src, rec.get("options"), rec["entry"], args, globs, exp))
    return bad


def pytest_text(src, options, entry, args, globs, exp):
    lines = ["def test_replay():", "    from nsl import Compiler, LinearIR, VM",
             f"    r = Compiler.Compiler().Compile({src!r}, {options or {}!r})", "    assert r is not None",
             "    l = LinearIR.Linker(); l.AddModule(r.IRModule); vm = VM.VirtualMachine(l.Link())"]
    for k, v in globs.items():
        lines.append(f"    vm.SetGlobal({k!r}, {v!r})")
    lines.append(f"    assert vm.Invoke({entry!r}, **{args!r}) == {exp['return']!r}")
    for k, v in (exp.get("globals") or {}).items():
        lines.append(f"    assert vm.GetGlobal({k!r}) == {v!r}")
    return "\n".join(lines)


# ---------------------------------------------------------------------------------------------
# sharded family driver
# ---------------------------------------------------------------------------------------------
def family_worker(job):
    """job = (prop, checker name, family name, tier, shard, nshards, extra)"""
    from . import checkers, families

    prop, ck, fam, tier, shard, nshards, extra = job
    agg = Agg()
    fn = getattr(checkers, ck)
    for case in families.generate(fam, tier, shard, nshards):
        fn(prop, case, agg, **(extra or {}))
    fin = getattr(checkers, ck + "_finish", None)
    if fin is not None:
        fin(prop, agg)
    for f in agg.fails:      # how to re-execute exactly the history that produced this failure (hermetic job)
        f.setdefault("job", {"fn": "nslmc.engine:family_worker", "arg": list(job)})
    return agg.result()


def run_families(prop, ck, fams, tier, seed, extra=None, shards_per_family=None):
    from . import families
    jobs = []
    for spec in fams:
        # "N@quick": this family at the quick bound whatever the tier of the run (its deep bound belongs to another property)
        fam, _, pinned = spec.partition("@")
        ftier = pinned or tier
        # jobs are hermetic (one fresh interpreter each), so do not cut small families into many pieces
        nseeds = sum(1 for _ in families.REGISTRY[fam](ftier))
        ns = shards_per_family or max(1, min(pool.NPROC * 2, nseeds // 40))
        for s in range(ns):
            jobs.append((prop, ck, fam, ftier, s, ns, extra))
    rot = seed % len(jobs) if seed else 0
    jobs = jobs[rot:] + jobs[:rot]
    results = pool.pmap(family_worker, jobs)
    per_family = collections.Counter()
    for j, r in zip(jobs, results):
        per_family[j[2] + ("@" + j[3] if j[3] != tier else "")] += r["evals"]
    tot = merge(results)
    return tot, dict(per_family)
