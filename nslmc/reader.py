"""C17 reader process: python -m nslmc.reader <snapshot root> <batch dir>
Loads every stored module of the batch with FilesystemModuleLoader in THIS interpreter (started with a
different hash seed than the writer) and compares listing, metadata and VM behaviour with what the
writer recorded."""
import json
import os
import sys


def main():
    snap, d = sys.argv[1], sys.argv[2]
    sys.setrecursionlimit(10000)
    from . import fastarena, pool, snapshot
    fastarena.install()
    snapshot.activate(snap, quiet_tables=False)
    from nsl import LinearIR
    from .checkers import behaviour
    batch = json.load(open(os.path.join(d, "batch.json")))
    os.chdir(d)
    failures = []
    checked = 0
    with pool.quiet():
        for item in batch:
            units = [{"entry": u["entry"], "inputs": [tuple(i) for i in u["inputs"]]} for u in item["units"]]
            try:
                mod = LinearIR.FilesystemModuleLoader().Load(item["stem"] + ".nslir")
                got = behaviour(mod, units)
            except BaseException as e:
                got = {"load": type(e).__name__ + ": " + str(e)[:100]}
            checked += 1
            want = item["want"]
            if got != want:
                what = next((k for k in ("load", "link", "listing", "metadata_functions", "metadata_types", "metadata_keys", "globals", "imports", "function_types", "constants", "runs") if got.get(k) != want.get(k)), "?")
                failures.append({"fam": item["fam"], "opt": item["opt"], "what": what, "source": item["source"], "units": item["units"],
                                 "expected": str(want.get(what))[:300], "observed": str(got.get(what))[:300]})
    with open(os.path.join(d, "reader_out.json"), "w") as f:
        json.dump({"checked": checked, "failures": failures, "hashseed": os.environ.get("PYTHONHASHSEED")}, f)


if __name__ == "__main__":
    main()
