"""The generators' own tiny AST ("miniast") and its pretty-printer to NSL source text.

Types      'int' 'float' 'uint' 'void' | ('vec', comp, n) | ('mat', comp, rows, cols)
           | ('arr', elem, (d0, d1, ...)) | ('struct', name)
Expr       ('lit', type, value) ('var', name) ('bin', op, l, r) ('asg', op, lvalue, rhs)
           ('pre', '++'|'--', name) ('post', '++'|'--', name) ('idx', base, index) ('fld', base, name)
           ('swz', base, mask) ('call', fname, [args]) ('ctor', type, [args]) ('raw', text)
Stmt       ('decl', type, name, init|None) ('expr', e) ('if', c, then, else|None)
           ('for', decl|None, cond|None, next|None, body) ('while', c, body|('empty',)) ('do', body_block, c)
           ('block', [stmts]) ('break',) ('continue',) ('ret', e|None) ('empty',) ('rawstmt', text)
Func       dict(name, params=[(type, name)], ret=type, body=[stmts], export=bool)
Prog       dict(structs=[(name, [(type, field)])], globals=[(type, name)], funcs=[Func], imports=[names])
"""

PREC = {"||": 1, "&&": 2, "==": 3, "!=": 3, "<": 4, "<=": 4, ">": 4, ">=": 4, "+": 5, "-": 5, "*": 6, "/": 6, "%": 6}
BINOPS = ["+", "-", "*", "/", "%", "<", "<=", ">", ">=", "==", "!=", "&&", "||"]
CMPOPS = ("<", "<=", ">", ">=", "==", "!=")


def vec(c, n):
    return ("vec", c, n)


def mat(n, c="float"):
    return ("mat", c, n, n)


def arr(elem, *dims):
    return ("arr", elem, tuple(dims))


def tname(t):
    if isinstance(t, str):
        return t
    k = t[0]
    if k == "vec":
        return f"{t[1]}{t[2]}"
    if k == "mat":
        return f"{t[1]}{t[2]}x{t[3]}"
    if k == "arr":
        return tname(t[1]) + "".join(f"[{d}]" for d in t[2])
    if k == "struct":
        return t[1]
    raise ValueError(t)


def lit(v):
    return ("lit", "float" if isinstance(v, float) else "int", v)


def fmt_float(v):
    s = repr(float(v))
    if "e" in s or "inf" in s or "nan" in s:
        raise ValueError(f"float literal not representable in NSL fixed notation: {v}")
    return s


def rx(e, mode="min", top=True):
    """Render an expression.  mode 'min': minimal parentheses for the declared precedence with
    left associativity; 'full': every nested binary operand wrapped (isolates the parser)."""
    k = e[0]
    if k == "lit":
        if len(e) > 3:
            return e[3]          # explicit spelling (hex, octal, exponent, suffix ...)
        if e[1] == "float":
            assert e[2] >= 0, "negative float literals are not spellable"
            return fmt_float(e[2])
        return str(e[2])
    if k == "var":
        return e[1]
    if k == "raw":
        return e[1]
    if k == "bin":
        _, op, l, r = e
        ls, rs = rx(l, mode, False), rx(r, mode, False)
        if l[0] == "bin" and (mode == "full" or PREC[l[1]] < PREC[op]):
            ls = "(" + ls + ")"
        if r[0] == "bin" and (mode == "full" or PREC[r[1]] <= PREC[op]):
            rs = "(" + rs + ")"
        return f"{ls} {op} {rs}"
    if k == "asg":
        return f"{rx(e[2], mode)} {e[1]} {rx(e[3], mode)}"
    if k == "pre":
        return f"{e[1]}{e[2]}"
    if k == "post":
        return f"{e[2]}{e[1]}"
    if k == "idx":
        return f"{rx(e[1], mode)}[{rx(e[2], mode)}]"
    if k == "fld":
        return f"{rx(e[1], mode)}.{e[2]}"
    if k == "swz":
        return f"{rx(e[1], mode)}.{e[2]}"
    if k == "call":
        return f"{e[1]}(" + ", ".join(rx(a, mode) for a in e[2]) + ")"
    if k == "ctor":
        return f"{tname(e[1])}(" + ", ".join(rx(a, mode) for a in e[2]) + ")"
    raise ValueError(e)


def rdecl(t, name, init, mode):
    s = f"{tname(t)} {name}"
    if init is not None:
        s += " = " + rx(init, mode)
    return s


def rs(s, ind=1, mode="min"):
    """Render a statement to a list of lines."""
    p = "    " * ind
    k = s[0]
    if k == "decl":
        return [p + rdecl(s[1], s[2], s[3], mode) + ";"]
    if k == "expr":
        return [p + rx(s[1], mode) + ";"]
    if k == "rawstmt":
        return [p + s[1]]
    if k == "block":
        out = [p + "{"]
        for x in s[1]:
            out += rs(x, ind + 1, mode)
        return out + [p + "}"]
    if k == "if":
        out = [p + f"if ({rx(s[1], mode)})"] + rs(s[2], ind + (s[2][0] != "block"), mode)
        if s[3] is not None:
            out += [p + "else"] + rs(s[3], ind + (s[3][0] != "block"), mode)
        return out
    if k == "for":
        init = rdecl(s[1][1], s[1][2], s[1][3], mode) if s[1] is not None else ""
        cond = rx(s[2], mode) if s[2] is not None else ""
        nxt = rx(s[3], mode) if s[3] is not None else ""
        return [p + f"for ({init}; {cond}; {nxt})"] + rs(s[4], ind + (s[4][0] != "block"), mode)
    if k == "while":
        if s[2][0] == "empty":
            return [p + f"while ({rx(s[1], mode)});"]
        return [p + f"while ({rx(s[1], mode)})"] + rs(s[2], ind + (s[2][0] != "block"), mode)
    if k == "do":
        assert s[1][0] == "block"
        return [p + "do"] + rs(s[1], ind, mode) + [p + f"while ({rx(s[2], mode)})"]
    if k == "break":
        return [p + "break;"]
    if k == "continue":
        return [p + "continue;"]
    if k == "ret":
        return [p + ("return;" if s[1] is None else f"return {rx(s[1], mode)};")]
    raise ValueError(s)


def rfunc(f, mode="min"):
    head = ("export " if f.get("export") else "") + f"function {f['name']}(" + ", ".join(
        f"{tname(t)} {n}" for t, n in f["params"]) + f") -> {tname(f['ret'])}"
    out = [head, "{"]
    for s in f["body"]:
        out += rs(s, 1, mode)
    return out + ["}"]


def render(prog, mode="min"):
    out = []
    for name in prog.get("imports", []):
        out.append(f'import "{name}";')
    for name, fields in prog.get("structs", []):
        out.append(f"struct {name}")
        out.append("{")
        for t, n in fields:
            out.append(f"    {tname(t)} {n};")
        out.append("}")
    for t, n in prog.get("globals", []):
        out.append(f"{tname(t)} {n};")
    for f in prog["funcs"]:
        out += rfunc(f, mode)
    return "\n".join(out) + "\n"


def func(name, params, ret, body, export=True):
    return {"name": name, "params": list(params), "ret": ret, "body": list(body), "export": export}


def prog(funcs, globals=(), structs=(), imports=()):
    return {"funcs": list(funcs), "globals": list(globals), "structs": list(structs), "imports": list(imports)}
