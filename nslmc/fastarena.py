"""Optional performance aid: install native/arena.so as CPython's arena allocator (see arena.c).
Absent or failing -> silently keep the default allocator (checks are then slower, not different)."""
import ctypes
import os

_KEEP = []


def install():
    if os.environ.get("NSLMC_NO_ARENA") or _KEEP:
        return bool(_KEEP)
    so = os.path.join(os.path.dirname(os.path.dirname(os.path.abspath(__file__))), "native", "arena.so")
    if not os.path.exists(so):
        try:  # normally built by MANIFEST.setup_cmd; build on demand otherwise
            import subprocess
            subprocess.run(["gcc", "-O2", "-shared", "-fPIC", "-o", so + ".%d.tmp" % os.getpid(), so[:-3] + ".c"],
                           check=True, stdout=subprocess.DEVNULL, stderr=subprocess.DEVNULL, timeout=60)
            os.replace(so + ".%d.tmp" % os.getpid(), so)
        except Exception:
            return False
    try:
        lib = ctypes.CDLL(so)

        class A(ctypes.Structure):
            _fields_ = [("ctx", ctypes.c_void_p), ("alloc", ctypes.c_void_p), ("free", ctypes.c_void_p)]

        a = A()
        if lib.nslmc_arena_fill(ctypes.byref(a)) != 0:
            return False
        ctypes.pythonapi.PyObject_SetArenaAllocator(ctypes.byref(a))
        _KEEP.extend([lib, a])
        return True
    except Exception:
        return False
