"""Finding keys, the committed known-findings file, VIOLATION / KNOWN-FINDING lines."""
import hashlib
import json
import os

VERIF = os.path.dirname(os.path.dirname(os.path.abspath(__file__)))
KNOWN = os.path.join(VERIF, "findings", "known_findings.json")


def load_known(prop):
    try:
        doc = json.load(open(KNOWN))
    except FileNotFoundError:
        return {}
    return {f["key"]: f for f in doc.get("findings", []) if f["property"] == prop}


def replay_path(prop, key):
    h = hashlib.sha1(key.encode()).hexdigest()[:12]
    d = os.path.join(VERIF, "replays", prop)
    os.makedirs(d, exist_ok=True)
    return os.path.join(d, f"{h}.json")


def settle(prop, failures, max_report=8, confirm=None):
    """failures: list of dicts with at least 'key' (finding key) and replay data.

    Prints one KNOWN-FINDING line per listed key that fired and one VIOLATION line per
    unlisted key (first witness, in enumeration order).  Returns (n_violation_keys, known_hits).
    The known-findings file is only ever read here."""
    known = load_known(prop)
    d = os.path.join(VERIF, "replays", prop)
    if os.path.isdir(d):
        for fn in os.listdir(d):  # replay files belong to the latest run only
            if fn.endswith(".json"):
                os.unlink(os.path.join(d, fn))
    by_key = {}
    for f in failures:
        by_key.setdefault(f["key"], []).append(f)
    known_hits = {}
    viol = []
    for key in sorted(by_key):
        if key in known:
            known_hits[key] = len(by_key[key])
        else:
            viol.append(key)
    for key in sorted(known_hits):
        w = known[key].get("witness", "")
        print(f"KNOWN-FINDING: property={prop} {key} :: {w} (cases={known_hits[key]})")
    for key in viol[:max_report]:
        rec = dict(by_key[key][0])
        rec["property"] = prop
        rec["cases_with_this_key"] = len(by_key[key])
        path = replay_path(prop, key)
        with open(path, "w") as f:
            json.dump(rec, f, indent=1, default=str)
            f.write("\n")
        if confirm is not None and not confirm(path):
            print(f"HARNESS-NONDETERMINISM property={prop} replay={path} (did not reproduce in a fresh process)")
            raise SystemExit(2)
        print(f"VIOLATION property={prop} replay={path}")
        print(f"  key: {key}")
        for k in ("source", "expected", "observed", "detail"):
            if k in rec:
                s = str(rec[k])
                print(f"  {k}: " + (s if len(s) < 600 else s[:600] + " ..."))
    if len(viol) > max_report:
        print(f"  ... and {len(viol) - max_report} further distinct violation keys for {prop}")
    return len(viol), known_hits
