"""Checker entry points callable by name from engine.family_worker."""
from . import engine


def ref(prop, case, agg, options=None):
    engine.check_ref(prop, case, agg, options)
