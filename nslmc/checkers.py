"""Checker entry points callable by name from engine.family_worker."""
import os

from . import engine


def ref(prop, case, agg, options=None):
    engine.check_ref(prop, case, agg, options)


def ref_both(prop, case, agg):
    """Against the reference at both optimisation levels (the statements do not depend on the level)."""
    engine.check_ref(prop, case, agg, None)
    engine.check_ref(prop, case, agg, {"optimize": True})     # the failure record carries the options it was found with


# ---------------------------------------------------------------------------------------------
# C02: differential optimisation off / on
# ---------------------------------------------------------------------------------------------
def diff(prop, case, agg, units=None):
    from . import lang
    from .engine import case_prog, short, vm_outcome
    from .nslapi import compile_src, link, listing
    from .refsem import values_equal

    units = case["units"] if units is None else units
    src = case["src"] if "src" in case else lang.render(case_prog(case, units), case.get("mode", "min"))
    r0 = compile_src(src, {"optimize": False})
    r1 = compile_src(src, {"optimize": True})
    if len(units) > 1 and not (r0.ok and r1.ok):
        h = len(units) // 2
        diff(prop, case, agg, units[:h])
        diff(prop, case, agg, units[h:])
        return
    desc = (units[0].get("desc") if len(units) == 1 else None) or case["desc"]
    agg.evals += 1
    if r0.ok != r1.ok:
        agg.nontrivial += 1
        agg.fail({"key": f"{prop}|{case['fam']}|accept-differs|{r0.cls()} vs {r1.cls()}|{desc}", "source": src,
                  "expected": f"same accept/reject decision (optimize off: {r0.cls()})", "observed": f"optimize on: {r1.cls()} {r1.msg or ''}"})
        return
    if not r0.ok:
        agg.stats["both-rejected"] += 1
        return
    try:
        p0 = link(r0.module)
    except BaseException:
        agg.stats["unoptimised-does-not-link"] += 1
        return
    try:
        p1 = link(r1.module)
    except BaseException as e:
        agg.fail({"key": f"{prop}|{case['fam']}|link-differs|{type(e).__name__}|{desc}", "source": src,
                  "expected": "optimised module links like the unoptimised one", "observed": repr(e)[:200]})
        return
    changed = listing(r0.module) != listing(r1.module)
    if changed:
        agg.stats["optimiser-changed-listing"] += 1
    for u in units:
        udesc = u.get("desc") or case["desc"]
        for args, globs in u["inputs"]:
            agg.evals += 1
            a = vm_outcome(p0, u["entry"], args, globs)
            b = vm_outcome(p1, u["entry"], args, globs)
            if changed:
                agg.nontrivial += 1
            same = a[0] == b[0] and (a[0] != "ok" or (values_equal(a[1], b[1]) and values_equal(a[2], b[2])))
            if a[0] == "exc" and b[0] == "exc":
                same = True  # both fail (C05's business); class may legitimately differ
            if not same:
                if b[0] == "ok" and a[0] == "ok":
                    kind, where = "value-differs", "return" if not values_equal(a[1], b[1]) else "globals"
                elif b[0] != "ok" and a[0] == "ok":
                    kind, where = "optimised-fails", ("timeout" if b[0] == "timeout" else f"{b[1]}@{b[2]}")
                else:
                    kind, where = "unoptimised-fails-only", ("timeout" if a[0] == "timeout" else f"{a[1]}@{a[2]}")
                agg.fail({"key": f"{prop}|{case['fam']}|{kind}|{where}|{udesc}",
                          "source": src if len(units) == 1 else lang.render(case_prog(case, [u]), case.get("mode", "min")),
                          "entry": u["entry"], "inputs": {"args": args, "globals": globs},
                          "expected": "optimize=False: " + short(a), "observed": "optimize=True: " + short(b)})
                break
    if len(agg.samples) < 2:
        agg.samples.append({"source": src[:500], "entry": units[0]["entry"], "optimiser_changed_listing": changed})


def replay_diff(rec, verbose=True):
    from .engine import vm_outcome
    from .nslapi import compile_src, link
    from .refsem import values_equal

    r0 = compile_src(rec["source"], {"optimize": False})
    r1 = compile_src(rec["source"], {"optimize": True})
    if verbose:
        print(rec["source"])
        print("optimize off:", r0.cls(), "| optimize on:", r1.cls(), r1.msg or "")
    if r0.ok != r1.ok:
        return True
    if not r0.ok or "inputs" not in rec:
        return False
    args, globs = rec["inputs"]["args"], rec["inputs"]["globals"]
    a = vm_outcome(link(r0.module), rec["entry"], args, globs)
    try:
        b = vm_outcome(link(r1.module), rec["entry"], args, globs)
    except BaseException as e:
        b = ("link-failed", repr(e))
    if verbose:
        print("inputs", rec["inputs"], "\n off:", a, "\n on: ", b)
        print("def test_replay():\n    from nsl import Compiler, LinearIR, VM\n    out = []\n    for o in (False, True):\n"
              f"        r = Compiler.Compiler().Compile({rec['source']!r}, {{'optimize': o}})\n"
              "        l = LinearIR.Linker(); l.AddModule(r.IRModule); vm = VM.VirtualMachine(l.Link())\n"
              + "".join(f"        vm.SetGlobal({k!r}, {v!r})\n" for k, v in globs.items())
              + f"        out.append(vm.Invoke({rec['entry']!r}, **{args!r}))\n    assert out[0] == out[1]")
    if a[0] == "exc" and b[0] == "exc":
        return False
    return not (a[0] == b[0] and (a[0] != "ok" or (values_equal(a[1], b[1]) and values_equal(a[2], b[2]))))


# ---------------------------------------------------------------------------------------------
# C14: IR well-formedness at both optimisation levels
# ---------------------------------------------------------------------------------------------
def irwf(prop, case, agg, units=None):
    from . import irwf as W
    from . import lang
    from .engine import case_prog
    from .nslapi import compile_src, link

    units = case["units"] if units is None else units
    src = case["src"] if "src" in case else lang.render(case_prog(case, units), case.get("mode", "min"))
    bare = set()      # functions whose SOURCE has a value-less return although they have a result (the front end lets that through)
    for opt in (False, True):
        res = compile_src(src, {"optimize": opt})
        if not res.ok:
            if len(units) > 1:
                h = len(units) // 2
                irwf(prop, case, agg, units[:h])
                irwf(prop, case, agg, units[h:])
                return
            agg.stats["not-compiled:" + res.status] += 1
            continue
        if not opt:
            from nsl import LinearIR as _L
            for f in res.module.Functions.values():
                if not f.Type.ReturnType.IsVoid() and any(isinstance(i, _L.ReturnInstruction) and i.Value is None for i in f.Instructions):
                    bare.add(f.Name)
        try:
            program = link(res.module)
        except BaseException:
            program = None
            agg.stats["does-not-link"] += 1
        unknown = set()
        nfun = len(res.module.Functions)
        agg.evals += nfun
        agg.nontrivial += nfun
        for f in res.module.Functions.values():
            agg.stats["blocks>1"] += 1 if len(f.BasicBlocks) > 1 else 0
        probs = W.check_module(res.module, program, unknown)
        for c in unknown:
            agg.stats["unknown-instruction-class:" + c] += 1
        for p in probs:
            if p["kind"] == "missing-operand" and p["where"] == "ReturnInstruction.value" and p.get("function") in bare:
                agg.stats["bare-return-in-source"] += 1
                continue
            agg.fail({"key": f"{prop}|{case['fam']}|{p['kind']}|{p['where']}|opt={int(opt)}", "source": src,
                      "options": {"optimize": opt}, "expected": "well-formed IR", "observed": p["detail"]})
    if len(agg.samples) < 2:
        agg.samples.append({"source": src[:500]})


def replay_irwf(rec, verbose=True):
    from . import irwf as W
    from .nslapi import compile_src, link, listing

    res = compile_src(rec["source"], rec.get("options"))
    if not res.ok:
        if verbose:
            print("does not compile:", res.cls())
        return False
    try:
        program = link(res.module)
    except BaseException:
        program = None
    probs = W.check_module(res.module, program)
    if verbose:
        print(rec["source"], "\noptions", rec.get("options"))
        print(listing(res.module))
        for p in probs:
            print("PROBLEM", p)
    kind = rec["key"].split("|")[2]
    return any(p["kind"] == kind for p in probs)


# ---------------------------------------------------------------------------------------------
# gate properties (C11, C12, C13): the front end's accept/reject decision, plus behaviour of
# accepted programs against the reference where the case carries inputs
# ---------------------------------------------------------------------------------------------
def gate(prop, case, agg):
    from . import lang
    from .engine import case_prog, check_ref
    from .nslapi import compile_src

    src = case["src"] if "src" in case else lang.render(case_prog(case), case.get("mode", "min"))
    want = case["expect"]
    if want == "accept" and case["units"] and case["units"][0]["inputs"] and "src" not in case:
        before = len(agg.fails), sum(agg.counts.values())
        check_ref(prop, case, agg)   # compiles, runs and compares; a rejection is reported as not-compiled
        agg.stats["accepted-and-run"] += 1
        return
    res = compile_src(src)
    agg.evals += 1
    agg.nontrivial += 1
    agg.stats["decision:" + res.status] += 1
    if want == "reject" and res.status != "reject":
        agg.fail({"key": f"{prop}|{case['fam']}|accepted-must-reject|{res.status}|{case['desc']}", "source": src,
                  "expected": "rejected: " + case.get("why", ""), "observed": res.cls() + " " + (res.msg or "")})
    elif want == "accept" and res.status == "reject":
        agg.fail({"key": f"{prop}|{case['fam']}|rejected-must-accept|{res.exc}@{res.where}|{case['desc']}", "source": src,
                  "expected": "accepted: " + case.get("why", ""), "observed": res.cls() + " " + (res.msg or "")})
    elif want == "accept" and res.status == "internal":
        agg.stats["accepted-by-gate-then-internal(C05)"] += 1
    if len(agg.samples) < 2:
        agg.samples.append({"source": src[:500], "expect": want})


def replay_gate(rec, verbose=True):
    from .engine import replay_ref
    from .nslapi import compile_src

    if "inputs" in rec and "entry" in rec:
        return replay_ref(rec, verbose)
    res = compile_src(rec["source"])
    if verbose:
        print(rec["source"])
        print("expected:", rec["expected"], "\nobserved:", res.cls(), res.msg or "")
        print("def test_replay():\n    from nsl import Compiler\n    try:\n"
              f"        r = Compiler.Compiler().Compile({rec['source']!r})\n    except BaseException:\n        r = None\n"
              + ("    assert r is None" if "must-reject" in rec["key"] else "    assert r is not None"))
    kind = rec["key"].split("|")[2]
    if kind == "accepted-must-reject":
        return res.status != "reject"
    if kind == "rejected-must-accept":
        return res.status == "reject"
    if kind == "not-compiled":
        return not res.ok
    return False


# ---------------------------------------------------------------------------------------------
# C05: accepted programs do not go wrong (safety oracle, both optimisation levels)
# ---------------------------------------------------------------------------------------------
ALLOWED_RUNTIME = ("ZeroDivisionError",)


def safe(prop, case, agg, units=None):
    from . import lang
    from .engine import case_prog, vm_outcome
    from .nslapi import compile_src, link

    units = case["units"] if units is None else units
    src = case["src"] if "src" in case else lang.render(case_prog(case, units), case.get("mode", "min"))
    feat = case.get("feat") or case["desc"]
    for opt in (False, True):
        res = compile_src(src, {"optimize": opt})
        if not res.ok and len(units) > 1:
            h = len(units) // 2
            safe(prop, case, agg, units[:h])
            safe(prop, case, agg, units[h:])
            return
        agg.evals += 1
        udesc = (units[0].get("desc") if len(units) == 1 else None) or feat
        if res.status == "reject":
            agg.stats["rejected-by-front-end"] += 1
            continue
        agg.nontrivial += 1
        if res.status == "internal":
            agg.fail({"key": f"{prop}|{case['fam']}|after-gate:{'lower' if not res.file or 'Lower' in res.file or 'LinearIR' in res.file else 'ir-pass'}|{res.exc}@{res.where}|{udesc}",
                      "source": src, "options": {"optimize": opt}, "expected": "a program that passes the front end compiles",
                      "observed": f"{res.cls()} {res.msg or ''} (optimize={opt})"})
            continue
        try:
            program = link(res.module)
        except BaseException as e:
            agg.fail({"key": f"{prop}|{case['fam']}|link|{type(e).__name__}|{udesc}", "source": src, "options": {"optimize": opt},
                      "expected": "links", "observed": repr(e)[:200]})
            continue
        for u in units:
            ud = u.get("desc") or feat
            for args, globs in u["inputs"]:
                agg.evals += 1
                agg.nontrivial += 1
                got = vm_outcome(program, u["entry"], args, globs)
                if got[0] == "exc" and got[1] == "IndexError" and "src" not in case:
                    # defined failure only if the reference confirms a dynamic index really is out of range
                    from .engine import ref_outcome
                    ref = ref_outcome(case_prog(case, units), u["entry"], args, globs)
                    if ref[0] == "unspec" and ref[1] == "index out of range":
                        agg.stats["defined-runtime-failure:IndexError"] += 1
                        continue
                if got[0] == "ok" or (got[0] == "exc" and got[1] in ALLOWED_RUNTIME):
                    if got[0] == "exc":
                        agg.stats["defined-runtime-failure:" + got[1]] += 1
                    continue
                where = "timeout" if got[0] == "timeout" else f"{got[1]}@{got[2]}"
                agg.fail({"key": f"{prop}|{case['fam']}|run|{where}|{ud}", "source": src if len(units) == 1 else lang.render(case_prog(case, [u]), case.get("mode", "min")),
                          "options": {"optimize": opt}, "entry": u["entry"], "inputs": {"args": args, "globals": globs},
                          "expected": "runs (or fails with division by zero / index out of range only)", "observed": f"{where} (optimize={opt})"})
                break
    if len(agg.samples) < 2:
        agg.samples.append({"source": src[:500]})


def replay_safe(rec, verbose=True):
    from .engine import vm_outcome
    from .nslapi import compile_src, link

    res = compile_src(rec["source"], rec.get("options"))
    if verbose:
        print(rec["source"], "\noptions", rec.get("options"), "\ncompile:", res.cls(), res.msg or "")
    if res.status == "internal":
        return True
    if not res.ok or "inputs" not in rec:
        return False
    got = vm_outcome(link(res.module), rec["entry"], rec["inputs"]["args"], rec["inputs"]["globals"])
    if verbose:
        print("inputs", rec["inputs"], "->", got)
    return not (got[0] == "ok" or (got[0] == "exc" and got[1] in ALLOWED_RUNTIME))


# ---------------------------------------------------------------------------------------------
# C17: a stored IR module reloads to the same program (writer = real nslc.py, reader = other process)
# ---------------------------------------------------------------------------------------------
_STORE = {"dir": None, "batch": [], "n": 0}


def _store_dir():
    import tempfile
    if _STORE["dir"] is None:
        _STORE["dir"] = tempfile.mkdtemp(prefix="nslmc-c17-")
    return _STORE["dir"]


def run_nslc(argv, cwd):
    """Run the snapshot's nslc.py in this process exactly as its command line would (runpy, patched argv).
    -> (exit code, object handed to pickle.dump or None)"""
    import gc
    import os
    import pickle
    import runpy
    import sys
    from . import pool, snapshot

    captured = []
    orig_dump = pickle.dump

    def dump(obj, f, *a, **k):
        captured.append(obj)
        return orig_dump(obj, f, *a, **k)

    old_argv, old_cwd = sys.argv, os.getcwd()
    pickle.dump = dump
    code = None
    try:
        os.chdir(cwd)
        sys.argv = ["nslc.py"] + list(argv)
        try:
            with pool.quiet():
                runpy.run_path(os.path.join(snapshot.root(), "nslc.py"), run_name="__main__")
            code = 0
        except SystemExit as e:
            code = e.code if isinstance(e.code, int) else (0 if e.code is None else 1)
        except BaseException as e:
            code = f"{type(e).__name__}"
    finally:
        pickle.dump = orig_dump
        sys.argv = old_argv
        os.chdir(old_cwd)
        gc.collect()
    return code, (captured[0] if captured else None)


def _jsonable(v):
    if isinstance(v, (list, tuple)):
        return [_jsonable(x) for x in v]
    if isinstance(v, dict):
        return {str(k): _jsonable(x) for k, x in v.items()}
    if isinstance(v, (int, float, str, bool)) or v is None:
        return v
    return repr(v)


def behaviour(module, units):
    """Listing + VM results of a module on the case's inputs (JSON-able)."""
    from .engine import vm_outcome
    from .nslapi import link, listing

    out = {"listing": listing(module), "metadata_functions": sorted(str(f) for f in module.Metadata.get("functions", [])),
           "metadata_types": sorted(repr(t) for t in module.Metadata.get("types", [])), "metadata_keys": sorted(module.Metadata.keys()),
           "globals": sorted((k, str(v)) for k, v in module.Globals.items()), "imports": sorted(module.Imports),
           "function_types": sorted((n, str(f.Type.ReturnType), [(a, str(t)) for a, t in f.Type.Arguments.items()]) for n, f in module.Functions.items()),
           "constants": sorted((n, sorted((c.Reference, repr(c.Value), str(c.Type)) for c in f.Constants)) for n, f in module.Functions.items()),
           "runs": []}
    out = _jsonable(out)
    try:
        program = link(module)
    except BaseException as e:
        out["link"] = type(e).__name__
        return out
    for u in units:
        for args, globs in u["inputs"]:
            r = vm_outcome(program, u["entry"], args, globs)
            out["runs"].append(_jsonable(list(r)))
    return out


def store(prop, case, agg, units=None):
    import json
    import os
    from . import lang
    from .engine import case_prog
    from .nslapi import compile_src

    units = case["units"] if units is None else units
    src = case["src"] if "src" in case else lang.render(case_prog(case, units), case.get("mode", "min"))
    d = _store_dir()
    for opt in (0, 1):
        _STORE["n"] += 1
        stem = f"p{_STORE['n']}"
        with open(os.path.join(d, stem + ".nsl"), "w") as f:
            f.write(src)
        code, mod = run_nslc([stem + ".nsl", "-o", stem + ".nslir", "-O", str(opt)], d)
        agg.evals += 1
        if code != 0 or mod is None:
            agg.stats[f"nslc-exit-{code}"] += 1
            # cross-check the front end's decision through the API: nslc must not fail on a program Compile accepts
            res = compile_src(src, {"optimize": bool(opt)})
            if res.ok:
                agg.fail({"key": f"{prop}|{case['fam']}|nslc-fails-on-accepted-program|exit={code}|opt={opt}", "source": src, "options": {"optimize": bool(opt)},
                          "expected": "nslc.py writes the module", "observed": f"exit {code}"})
            for fn in (stem + ".nsl", stem + ".nslir"):
                try:
                    os.unlink(os.path.join(d, fn))
                except OSError:
                    pass
            continue
        agg.nontrivial += 1
        want = behaviour(mod, units)
        # same-process reload
        try:
            from nsl import LinearIR
            cwd = os.getcwd()
            os.chdir(d)
            try:
                loaded = LinearIR.FilesystemModuleLoader().Load(stem)     # found by name, as an import would
            finally:
                os.chdir(cwd)
            got = behaviour(loaded, units)
        except BaseException as e:
            got = {"load": type(e).__name__ + ": " + str(e)[:100]}
        if got != want:
            what = next((k for k in ("load", "link", "listing", "metadata_functions", "metadata_types", "metadata_keys", "globals", "imports", "function_types", "constants", "runs") if got.get(k) != want.get(k)), "?")
            agg.fail({"key": f"{prop}|{case['fam']}|same-process-reload-differs|{what}|opt={opt}", "source": src, "options": {"optimize": bool(opt)},
                      "expected": str(want.get(what))[:300], "observed": str(got.get(what))[:300]})
        _STORE["batch"].append({"stem": stem, "fam": case["fam"], "opt": opt, "want": want, "source": src,
                                "units": [{"entry": u["entry"], "inputs": _jsonable(u["inputs"])} for u in units]})
    if len(agg.samples) < 2:
        agg.samples.append({"source": src[:400], "command": "nslc.py pN.nsl -o pN.nslir -O 0|1"})
    if len(_STORE["batch"]) >= 400:
        store_finish(prop, agg)


def store_finish(prop, agg):
    """Reload the whole batch in another interpreter process started with a different hash seed."""
    import json
    import os
    import shutil
    import subprocess
    import sys
    from . import snapshot

    d = _STORE["dir"]
    if d is None:
        return
    batch = _STORE["batch"]
    if batch:
        with open(os.path.join(d, "batch.json"), "w") as f:
            json.dump(batch, f)
        env = dict(os.environ)
        env["PYTHONHASHSEED"] = str(1 + (os.getpid() % 1000))
        env["PYTHONPATH"] = os.path.dirname(os.path.dirname(os.path.abspath(__file__)))
        r = subprocess.run([sys.executable, "-m", "nslmc.reader", snapshot.root(), d], env=env, stdout=subprocess.PIPE, stderr=subprocess.PIPE, timeout=1800)
        try:
            out = json.load(open(os.path.join(d, "reader_out.json")))
        except Exception:
            out = None
        if out is None:
            agg.fail({"key": f"{prop}|reader|reader-process-failed", "expected": "reader process completes", "observed": r.stderr.decode()[-400:]})
        else:
            agg.stats["reloaded-in-other-process"] += out["checked"]
            for f in out["failures"]:
                agg.fail({"key": f"{prop}|{f['fam']}|other-process-reload-differs|{f['what']}|opt={f['opt']}", "source": f["source"], "options": {"optimize": bool(f["opt"])},
                          "units": f["units"], "expected": f["expected"], "observed": f["observed"]})
    shutil.rmtree(d, ignore_errors=True)
    _STORE["dir"] = None
    _STORE["batch"] = []


def replay_store(rec, verbose=True):
    import os
    import shutil
    from .engine import Agg

    agg = Agg()
    case = {"fam": "replay", "desc": "replay", "src": rec["source"], "units": [{"funcs": [], "entry": u["entry"], "inputs": [tuple(i) for i in u["inputs"]]} for u in rec.get("units", [])] or
            [{"funcs": [], "entry": "f", "inputs": []}]}
    store("C17", case, agg)
    store_finish("C17", agg)
    if verbose:
        print(rec["source"])
        for f in agg.fails:
            print("FAIL", f["key"], f.get("expected"), f.get("observed"))
    return bool(agg.fails)


# ---------------------------------------------------------------------------------------------
# C06 / C07: the WebAssembly backend
# ---------------------------------------------------------------------------------------------
_WT = {}


def _engine():
    import wasmtime
    if "engine" not in _WT:
        _WT["engine"] = wasmtime.Engine()
    return _WT["engine"]


def f32(x):
    import struct
    try:
        return struct.unpack("<f", struct.pack("<f", x))[0]
    except OverflowError:
        return float("inf") if x > 0 else float("-inf")


def w_eval(e, env, single):
    """Reference evaluation of a W-family tree; `single` rounds every float result to binary32.
    -> (type, value); raises Unspec for int overflow, float division by zero and inexact int->float."""
    from .refsem import Unspec
    k = e[0]
    if k == "lit":
        v = e[2]
        if e[1] == "float" and single and f32(v) != v:
            raise Unspec("float literal not exact in binary32")
        return e[1], v
    if k == "var":
        t, v = env[e[1]]
        return t, v
    _, op, l, r = e
    lt, lv = w_eval(l, env, single)
    rt, rv = w_eval(r, env, single)
    t = "float" if "float" in (lt, rt) else "int"
    if t == "float":
        for tt, vv in ((lt, lv), (rt, rv)):
            if tt == "int" and f32(float(vv)) != float(vv):
                raise Unspec("int->float conversion not exact in binary32")
        a, b = float(lv), float(rv)
    else:
        a, b = lv, rv
    if op in ("==", "<", ">"):
        return "int", int({"==": a == b, "<": a < b, ">": a > b}[op])
    if op == "/":
        if b == 0:
            if t == "int":
                raise ZeroDivisionError()
            raise Unspec("float division by zero")
        if t == "int":
            q = abs(a) // abs(b)
            v = q if (a < 0) == (b < 0) else -q
        else:
            v = a / b
    else:
        v = {"+": a + b, "-": a - b, "*": a * b}[op]
    if t == "int":
        if not (-(1 << 31) <= v < (1 << 31)):
            raise Unspec("integer outside the signed 32-bit range")
        return t, v
    if single:
        v = f32(v)
    if v != v or v in (float("inf"), float("-inf")):
        raise Unspec("float overflow")
    return t, v


def wasm_prepare(data):
    """Compile/instantiate once per module: -> dict with wasmtime and reference handles (or their 'invalid' verdicts)."""
    import wasmtime
    from . import wasmref
    h = {}
    try:
        eng = _engine()
        mod = wasmtime.Module(eng, data)
        store = wasmtime.Store(eng)
        inst = wasmtime.Instance(store, mod, [])
        h["wasmtime"] = ("ok", store, inst.exports(store))
    except BaseException as e:
        h["wasmtime"] = ("invalid", f"{type(e).__name__}: {str(e)[:120]}")
    try:
        m = wasmref.decode(data)
        wasmref.validate(m)
        h["ref"] = ("ok", m)
    except (wasmref.Malformed, wasmref.Invalid) as e:
        h["ref"] = ("invalid", f"{type(e).__name__}: {e}")
    return h


def wasm_run(h, entry, argvals):
    """-> {'wasmtime': outcome, 'ref': outcome}; outcome = ('ok', value) | ('trap', msg) | ('invalid', msg) | ('no-export', name)"""
    import wasmtime
    from . import wasmref
    out = {}
    wt = h["wasmtime"]
    if wt[0] != "ok":
        out["wasmtime"] = wt
    else:
        fn = wt[2].get(entry)
        if fn is None:
            out["wasmtime"] = ("no-export", entry)
        else:
            try:
                out["wasmtime"] = ("ok", fn(wt[1], *argvals))
            except (wasmtime.Trap, wasmtime.WasmtimeError) as e:
                out["wasmtime"] = ("trap", str(e).splitlines()[0][:80])
            except Exception as e:      # e.g. the export has another signature than the function it is supposed to name
                out["wasmtime"] = ("trap", f"call not possible: {type(e).__name__}: {str(e)[:60]}")
    rf = h["ref"]
    if rf[0] != "ok":
        out["ref"] = rf
    else:
        try:
            out["ref"] = ("ok", wasmref.Instance(rf[1]).call_export(entry, argvals))
        except wasmref.Trap as e:
            out["ref"] = ("trap", str(e))
        except KeyError:
            out["ref"] = ("no-export", entry)
        except Exception as e:          # arguments do not fit the exported function's signature
            out["ref"] = ("trap", f"call not possible: {type(e).__name__}")
    return out


def _same_num(a, b):
    if a is None or b is None:
        return a is b
    if isinstance(a, float) or isinstance(b, float):
        return float(a) == float(b)
    return a == b


def wasm_agree(prop, case, agg, units=None):
    """Plain and - except for the big enumerated W programs, whose optimised form family W covers in the thorough tier - optimised
    compilation (the constant-cast folding creates constants the plain pipeline never hands to the emitter)."""
    _wasm_agree1(prop, case, agg, units, False)
    if "src" in case or case["fam"] != "W" or os.environ.get("NSLMC_TIER") == "thorough":
        _wasm_agree1(prop, case, agg, units, True)


def _wasm_agree1(prop, case, agg, units=None, optimize=False):
    """C06: VM == wasmtime == reference wasm interpreter, or refusal (refusal is a violation only inside the subset)."""
    from . import lang
    from .engine import case_prog, short, vm_outcome
    from .nslapi import compile_src, link
    from .refsem import Unspec

    units = case["units"] if units is None else units
    opts = {"wasm": True, "optimize": True} if optimize else {"wasm": True}
    otag = "|optimize" if optimize else ""
    src = case["src"] if "src" in case else lang.render(case_prog(case, units), case.get("mode", "min"))
    inside = case["fam"] == "W" and "src" not in case
    res = compile_src(src, opts)
    if res.status != "ok" and len(units) > 1:
        h = len(units) // 2
        _wasm_agree1(prop, case, agg, units[:h], optimize)
        _wasm_agree1(prop, case, agg, units[h:], optimize)
        return
    desc = (units[0].get("desc") if len(units) == 1 else None) or case["desc"]
    agg.evals += 1
    if res.status != "ok":
        agg.stats["refused:" + str(res.exc)] += 1
        if res.status in ("reject",):
            agg.stats["front-end-reject"] += 1
            return
        if inside:
            agg.nontrivial += 1
            agg.fail({"key": f"{prop}|{case['fam']}|refused-inside-subset|{res.exc}@{res.where}|{desc}{otag}", "source": src, "options": dict(opts),
                      "expected": "a module that agrees with the VM (scalar straight-line subset)", "observed": f"{res.cls()} {res.msg or ''}"})
        return
    data = res.wasm_bytes
    handles = wasm_prepare(data)
    try:
        program = link(res.module)
    except BaseException:
        program = None
    for u in units:
        ud = u.get("desc") or case["desc"]
        f = u["funcs"][0] if u["funcs"] else None
        for args, globs in u["inputs"]:
            agg.evals += 1
            order = [n for _, n in f["params"]] if f else list(args)
            argvals = [args[n] for n in order]
            if any(isinstance(v, (list, dict)) for v in argvals):
                # non-scalar parameters cannot be passed to a wasm function by a host: only validity is judged (C07)
                agg.stats["non-scalar-arguments-skipped"] += 1
                continue
            # expectation
            want = None
            if f is not None and f["body"] and f["body"][0][0] == "ret" and inside:
                env = {n: (t, args[n]) for t, n in f["params"]}
                try:
                    t64, v64 = w_eval(f["body"][0][1], env, False)
                    t32, v32 = w_eval(f["body"][0][1], env, True)
                    if t64 == "float" and f32(v64) != v32:
                        agg.stats["unspecified:binary32/binary64 differ"] += 1
                        continue
                    want = ("ok", v32)
                except ZeroDivisionError:
                    want = ("trap",)
                except Unspec as uu:
                    agg.stats["unspecified:" + str(uu)] += 1
                    continue
            else:
                vm = vm_outcome(program, u["entry"], args, globs) if program is not None else ("exc", "link", "link")
                if globs:
                    agg.stats["globals-not-settable-in-wasm"] += 1
                if vm[0] == "ok":
                    v = vm[1]
                    if v is None and case.get("ret", "void") != "void":
                        # control fell off the end of a function that has a result: the VM hands back nothing at all, which no
                        # wasm function of that signature can do - the source program has no defined result there
                        agg.stats["unspecified:no return executed in a function with a result"] += 1
                        continue
                    if isinstance(v, float):
                        if f32(v) != v:
                            agg.stats["unspecified:VM float result not exact in binary32"] += 1
                            continue
                    elif isinstance(v, int) and not (-(1 << 31) <= v < (1 << 32)):
                        agg.stats["unspecified:VM int result outside 32 bits"] += 1
                        continue
                    elif isinstance(v, (list, dict)):
                        agg.stats["non-scalar-result-skipped"] += 1
                        continue
                    want = ("ok", v)
                elif vm[0] == "exc" and vm[1] == "ZeroDivisionError":
                    want = ("trap",)
                else:
                    agg.stats["vm-fails(C05)"] += 1
                    continue
            agg.nontrivial += 1
            got = wasm_run(handles, u["entry"], argvals)
            bad = None
            for eng in ("wasmtime", "ref"):
                g = got[eng]
                if g[0] == "invalid":
                    bad = ("invalid-module", eng, g[1])
                elif g[0] == "no-export":
                    bad = ("export-missing", eng, g[1])
                elif want[0] == "trap":
                    if g[0] != "trap":
                        bad = ("no-trap-on-division-by-zero", eng, short(g))
                elif g[0] != "ok":
                    bad = ("unexpected-trap", eng, short(g))
                else:
                    w, v = want[1], g[1]
                    if isinstance(w, int) and isinstance(v, int):
                        ok = (w & 0xFFFFFFFF) == (v & 0xFFFFFFFF)
                    elif w is None:
                        ok = v is None
                    else:
                        ok = v is not None and _same_num(w, v)
                    if not ok:
                        bad = ("wrong-result", eng, short(v))
                if bad:
                    break
            if bad:
                agg.fail({"key": f"{prop}|{case['fam']}|{bad[0]}|{ud}{otag}", "source": src if len(units) == 1 else lang.render(case_prog(case, [u]), case.get("mode", "min")),
                          "options": dict(opts), "entry": u["entry"], "inputs": {"args": args, "globals": globs},
                          "expected": short(want), "observed": f"{bad[1]}: {bad[2]}"})
                break
    if len(agg.samples) < 2:
        agg.samples.append({"source": src[:400], "entry": units[0]["entry"], "inputs": short(units[0]["inputs"][:2], 150)})


def replay_wasm_agree(rec, verbose=True):
    from .engine import Agg
    agg = Agg()
    u = {"funcs": [], "entry": rec.get("entry", "f"), "inputs": [(rec["inputs"]["args"], rec["inputs"]["globals"])] if "inputs" in rec else []}
    case = {"fam": "WO", "desc": "replay", "src": rec["source"], "units": [u]}
    wasm_agree("C06", case, agg)
    if verbose:
        print(rec["source"], "\ninputs", rec.get("inputs"), "\nexpected", rec.get("expected"))
        for f in agg.fails:
            print("FAIL", f["key"], f["observed"])
        if not agg.fails and "refused" in rec["key"]:
            print("(recorded as a refusal inside the subset)")
    if "refused-inside-subset" in rec["key"]:
        from .nslapi import compile_src
        return compile_src(rec["source"], {"wasm": True}).status not in ("ok", "reject")
    return bool(agg.fails)


def wasm_valid(prop, case, agg, units=None):
    """Plain and - except for the big enumerated W programs, whose optimised form family W covers in the thorough tier - optimised
    compilation (the constant-cast folding creates constants the plain pipeline never hands to the emitter)."""
    _wasm_valid1(prop, case, agg, units, False)
    if "src" in case or case["fam"] != "W" or os.environ.get("NSLMC_TIER") == "thorough":
        _wasm_valid1(prop, case, agg, units, True)


def _wasm_valid1(prop, case, agg, units=None, optimize=False):
    """C07: every emitted module decodes and validates as WebAssembly 1.0 (independent validator, wasmtime as cross-check)."""
    import wasmtime
    from . import lang, wasmref
    from .engine import case_prog
    from .nslapi import compile_src

    units = case["units"] if units is None else units
    opts = {"wasm": True, "optimize": True} if optimize else {"wasm": True}
    otag = "|optimize" if optimize else ""
    src = case["src"] if "src" in case else lang.render(case_prog(case, units), case.get("mode", "min"))
    res = compile_src(src, opts)
    if res.status != "ok" and len(units) > 1:
        h = len(units) // 2
        _wasm_valid1(prop, case, agg, units[:h], optimize)
        _wasm_valid1(prop, case, agg, units[h:], optimize)
        return
    agg.evals += 1
    desc = (units[0].get("desc") if len(units) == 1 else None) or case["desc"]
    if res.status != "ok" or res.wasm_bytes is None:
        agg.stats["no-module-emitted:" + res.status] += 1
        return
    agg.nontrivial += 1
    data = res.wasm_bytes
    verdict = None
    try:
        m = wasmref.decode(data)
        agg.stats["functions"] += len(m.funcs)
        try:
            wasmref.validate(m)
        except wasmref.Invalid as e:
            verdict = ("invalid", _cls_msg(str(e)), str(e))
    except wasmref.Malformed as e:
        verdict = ("malformed", _cls_msg(str(e)), str(e))
    try:
        wasmtime.Module.validate(_engine(), data)
        wt = None
    except BaseException as e:
        wt = str(e).splitlines()[0][:160]
    if verdict is None and wt is not None:
        verdict = ("validator-disagreement", "wasmtime-rejects", wt)
    if verdict is not None:
        nfun = src.count("function ")
        agg.fail({"key": f"{prop}|{case['fam']}|{verdict[0]}|{verdict[1]}{otag}", "source": src, "options": dict(opts),
                  "expected": "a valid WebAssembly 1.0 binary", "observed": f"{verdict[2]} | wasmtime: {wt or 'accepts'} | bytes {data.hex()[:160]}"})
    if len(agg.samples) < 2:
        agg.samples.append({"source": src[:400], "bytes": data.hex()[:120]})


def _cls_msg(msg):
    import re
    msg = re.sub(r"function \d+: ", "", msg)
    msg = re.sub(r"\d+", "N", msg)
    msg = re.sub(r"'[^']*'", "'..'", msg)
    return msg[:70]


def replay_wasm_valid(rec, verbose=True):
    from .engine import Agg
    agg = Agg()
    case = {"fam": "replay", "desc": "replay", "src": rec["source"], "units": [{"funcs": [], "entry": "f", "inputs": []}]}
    wasm_valid("C07", case, agg)
    if verbose:
        print(rec["source"])
        for f in agg.fails:
            print("FAIL", f["key"], f["observed"])
    return bool(agg.fails)
