"""16-way fork pool with deterministic sharding and quiet workers."""
import multiprocessing as mp
import os
import signal
import sys

NPROC = int(os.environ.get("NSLMC_JOBS", "0")) or min(16, os.cpu_count() or 1)


class Timeout(BaseException):
    pass


def _alarm(signum, frame):
    raise Timeout()


class time_limit:
    """with time_limit(2.0): ...  raises Timeout (a BaseException) on expiry."""

    def __init__(self, seconds):
        self.seconds = seconds

    def __enter__(self):
        self.old = signal.signal(signal.SIGALRM, _alarm)
        signal.setitimer(signal.ITIMER_REAL, self.seconds)

    def __exit__(self, *a):
        signal.setitimer(signal.ITIMER_REAL, 0)
        signal.signal(signal.SIGALRM, self.old)
        return False


class _Null:
    def write(self, s):
        return len(s)

    def flush(self):
        pass

    def isatty(self):
        return False


def silence():
    sys.stdout = _Null()
    sys.stderr = _Null()


class quiet:
    """Swallow the compiler's chatter (it prints diagnostics straight to stdout)."""

    def __enter__(self):
        self.o, self.e = sys.stdout, sys.stderr
        sys.stdout, sys.stderr = _Null(), _Null()

    def __exit__(self, *a):
        sys.stdout, sys.stderr = self.o, self.e
        return False


def _init(snap_root, path):
    """Worker start-up (spawned, not forked: forked children of this interpreter run 2-3x slower
    on this VM because of copy-on-write page faults)."""
    sys.path[:] = path
    from . import fastarena

    fastarena.install()
    silence()
    sys.setrecursionlimit(10000)
    from . import snapshot

    snapshot.activate(snap_root, quiet_tables=False)


def _call(payload):
    func, arg = payload
    return func(arg)


_POOLS = {}


def get_pool(hermetic=False):
    """hermetic: every job runs in a brand-new interpreter (maxtasksperchild=1), so the history a job sees is exactly its own
    and a failing job can be re-executed verbatim in a fresh process (cli --rejob)."""
    if hermetic not in _POOLS:
        import atexit

        from . import snapshot

        ctx = mp.get_context("spawn")
        _POOLS[hermetic] = ctx.Pool(NPROC, initializer=_init, initargs=(snapshot.root(), list(sys.path)), maxtasksperchild=1 if hermetic else None)
        if len(_POOLS) == 1:
            atexit.register(close_pool)
    return _POOLS[hermetic]


def close_pool():
    for p in list(_POOLS.values()):
        p.terminate()
        p.join()
    _POOLS.clear()


def pmap(func, args, jobs=None, chunksize=1, hermetic=True):
    """Ordered map of a module-level function over args in the worker pool."""
    args = list(args)
    jobs = jobs or NPROC
    if os.environ.get("NSLMC_INPROCESS"):
        with quiet():
            return [func(a) for a in args]
    if jobs < NPROC:
        # limited parallelism (fork-heavy jobs): keep at most `jobs` in flight
        pl = get_pool(hermetic)
        pending, results, it = {}, [None] * len(args), iter(enumerate(args))
        import time as _t
        done = False
        while not done or pending:
            while not done and len(pending) < jobs:
                try:
                    i, a = next(it)
                except StopIteration:
                    done = True
                    break
                pending[i] = pl.apply_async(_call, ((func, a),))
            for i in [i for i, r in pending.items() if r.ready()]:
                results[i] = pending.pop(i).get()
            _t.sleep(0.02)
        return results
    return get_pool(hermetic).map(_call, [(func, a) for a in args], chunksize=chunksize)


def shards(n_items_hint=None, per_worker=4):
    """Number of shards to cut an enumeration into (shard i takes items with index % n == i)."""
    return NPROC * per_worker
