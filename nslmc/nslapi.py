"""Thin observation layer over the public API of the snapshot's nsl package (R2, R3)."""
import io
import os
import traceback

from . import pool, snapshot

# files whose frames mean "the AST gate already let the program through" (R2)
BACKEND_FILES = ("passes/LowerToIR.py", "LinearIR.py", "passes/RewriteFunctionArgAccess.py", "passes/OptimizeConstantCasts.py",
                 "passes/OptimizeLoadAfterStore.py", "passes/GenerateWasm.py", "WebAssembly.py", "VM.py", "passes/PrintLinearIR.py")


class CR:
    __slots__ = ("status", "module", "wasm", "wasm_bytes", "exc", "where", "file", "msg", "wasm_exc")

    def __init__(self):
        self.status = "reject"
        self.module = None
        self.wasm = None
        self.wasm_bytes = None
        self.exc = None
        self.where = None
        self.file = None
        self.msg = None
        self.wasm_exc = None

    @property
    def ok(self):
        return self.status == "ok"

    def cls(self):
        if self.status == "ok":
            return "ok"
        return f"{self.status}:{self.exc}@{self.where}"


def innermost_nsl_frame(tb):
    root = os.path.realpath(snapshot.root() or "")
    last = None
    for fs in traceback.extract_tb(tb):
        fn = os.path.realpath(fs.filename)
        if fn.startswith(root + os.sep):
            last = (os.path.relpath(fn, os.path.join(root, "nsl")), fs.name)
    return last


def outermost_pass_file(tb):
    """The file of the compiler pass the exception came out of (first frame inside nsl/passes/), or None."""
    root = os.path.realpath(snapshot.root() or "")
    for fs in traceback.extract_tb(tb):
        fn = os.path.realpath(fs.filename)
        if fn.startswith(os.path.join(root, "nsl", "passes") + os.sep):
            return os.path.relpath(fn, os.path.join(root, "nsl")).replace(os.sep, "/")
    return None


def classify(e):
    """-> (status, exc class name, function, file) for an exception leaving nsl code.
    'internal' = raised after the AST gate: the pass it came out of is a back-end pass, or (no pass on the stack: linker, VM,
    emitter used directly) the innermost nsl frame is in a back-end file.  A front-end pass that fails inside a helper living in a
    back-end file (ComputeTypes asking the module loader for an import) is still the front end refusing the program."""
    fr = innermost_nsl_frame(e.__traceback__)
    file, fn = fr if fr else ("?", "?")
    owner = outermost_pass_file(e.__traceback__) or file.replace(os.sep, "/")
    status = "internal" if owner in BACKEND_FILES else "reject"
    return status, type(e).__name__, fn, file


def compile_src(src, options=None):
    from nsl import Compiler

    r = CR()
    opts = dict(options or {})
    want_wasm = opts.get("wasm", False)
    try:
        with pool.quiet():
            res = Compiler.Compiler().Compile(src, opts)
    except pool.Timeout:
        raise
    except BaseException as e:  # SystemExit from the parser included
        r.status, r.exc, r.where, r.file = classify(e)
        r.msg = str(e)[:200]
        if want_wasm and r.file and ("GenerateWasm" in r.file or "WebAssembly" in r.file):
            r.status = "refused"
        return r
    if res is None:
        r.status, r.exc, r.where = "reject", "None", "Compile"
        return r
    r.status = "ok"
    r.module = res.IRModule
    if want_wasm:
        r.wasm = res.WasmModule
        try:
            buf = io.BytesIO()
            with pool.quiet():
                res.WasmModule.WriteTo(buf)
            r.wasm_bytes = buf.getvalue()
        except BaseException as e:
            _, r.wasm_exc, _, _ = classify(e)
            r.status = "refused"
            r.exc = type(e).__name__
            r.where = "WriteTo"
            r.msg = str(e)[:200]
    return r


def link(*modules, loader=None):
    from nsl import LinearIR

    lk = LinearIR.Linker(loader=loader) if loader is not None else LinearIR.Linker()
    for m in modules:
        lk.AddModule(m)
    return lk.Link()


def new_vm(program):
    from nsl import VM

    return VM.VirtualMachine(program)


def listing(module):
    """InstructionPrinter listing of a whole IR module (functions in module order)."""
    from nsl import LinearIR

    out = []

    def pr(*a, end="\n"):
        out.append(" ".join(str(x) for x in a) + end)

    p = LinearIR.InstructionPrinter(pr)
    for f in module.Functions.values():
        p.Print(f)
    return "".join(out)
