"""IR well-formedness checker (C14).  Reads only public accessors of nsl.LinearIR.

check_module(module, program) -> list of problems; a problem is a dict(kind, where, detail).
Rules (DESIGN.md C14): unique references per function; every operand is a Value whose reference
is that of a constant of the function or of an instruction currently in the function; branches
name blocks of the same function (both targets when conditional); calls name a function of the
linked program with the same argument count; an instruction whose opcode is a store still carries the
value it stores and a return of a non-void function its value (an optimisation that drops the operand but
keeps the opcode leaves something the VM cannot execute - a bare `return;` the front end lets through in such a
function is not that: the caller of check_module filters returns that have no value in the unoptimised module either); every use is dominated by a definition on every
path (forward must-analysis to the greatest fixpoint over the instruction-level CFG the VM
executes: blocks laid out in order, fall-through between blocks, branch/return as the only
control transfers).
"""


def _operands(ins, L):
    """-> list of (position name, operand object) or None if the class is unknown."""
    if isinstance(ins, L.BranchInstruction):
        return [("predicate", ins.Predicate)] if ins.Predicate is not None else []
    if isinstance(ins, L.BinaryInstruction):
        return [(f"value{i}", v) for i, v in enumerate(ins.Values)]
    if isinstance(ins, L.UnaryInstruction):  # CastInstruction included
        return [("value", ins.Value)]
    if isinstance(ins, L.ReturnInstruction):
        return [("value", ins.Value)] if ins.Value is not None else []
    if isinstance(ins, L.ConstructPrimitiveInstruction):
        return [(f"value{i}", v) for i, v in enumerate(ins.Values)]
    if isinstance(ins, L.MemberAccessInstruction):
        out = [("variable", ins.Variable)]
        if ins.Store is not None:
            out.append(("store", ins.Store))
        return out
    if isinstance(ins, L.ShuffleInstruction):
        return [("first", ins.First), ("second", ins.Second)]
    if isinstance(ins, L.VariableAccessInstruction):
        return [("store", ins.Store)] if ins.Store is not None else []
    if isinstance(ins, L.CallInstruction):
        return [(f"arg{i}", v) for i, v in enumerate(ins.Arguments)]
    if isinstance(ins, L._IndexedAccessBase):
        out = [("array", ins.Array), ("index", ins.Index)]
        if ins.Store is not None:
            out.append(("store", ins.Store))
        return out
    if isinstance(ins, L.DeclareVariableInstruction):
        return []
    return None


NO_RESULT = ("BRANCH", "RETURN", "STORE", "STORE_ARRAY", "STORE_MEMBER")


def check_function(fn, program, L, unknown_classes=None):
    P = []

    def prob(kind, where, detail):
        P.append({"kind": kind, "where": where, "function": fn.Name, "detail": f"{fn.Name}: {detail}"})

    blocks = list(fn.BasicBlocks)
    consts = list(fn.Constants)
    instrs = []
    for bb in blocks:
        instrs.extend(bb.Instructions)
    # 1. unique references
    seen = {}
    for what, vals in (("block", blocks), ("constant", consts), ("instruction", instrs)):
        for v in vals:
            r = getattr(v, "Reference", None)
            if not isinstance(r, int) or r < 0:
                prob("bad-reference", what, f"{what} has reference {r!r}")
                continue
            if r in seen:
                prob("duplicate-reference", f"{seen[r]}/{what}", f"reference %{r} is used by a {seen[r]} and a {what}")
            else:
                seen[r] = what
    const_refs = {c.Reference for c in consts}
    instr_refs = {i.Reference for i in instrs}
    block_refs = {b.Reference for b in blocks}
    # 2. operands, 3. branches, 4. calls
    uses = {}  # index -> list of refs used
    for idx, ins in enumerate(instrs):
        cname = type(ins).__name__
        ops = _operands(ins, L)
        if ops is None:
            if unknown_classes is not None:
                unknown_classes.add(cname)
            try:
                refs = [u if isinstance(u, int) else getattr(u, "Reference", None) for u in ins.Uses]
            except Exception as e:
                prob("uses-raises", cname, f"{cname}.Uses raised {type(e).__name__}")
                refs = []
            for r in refs:
                if r not in const_refs and r not in instr_refs:
                    prob("dangling-operand", f"{cname}.uses", f"%{ins.Reference} uses %{r} which is neither a constant nor an instruction of the function")
            uses[idx] = [r for r in refs if isinstance(r, int)]
            continue
        u = []
        for pos, o in ops:
            if not isinstance(o, L.Value):
                prob("operand-not-a-value", f"{cname}.{pos}", f"operand {pos} of %{ins.Reference} ({ins.OpCode.name}) is {type(o).__name__} {o!r}")
                continue
            r = o.Reference
            if isinstance(o, L.ConstantValue):
                if r not in const_refs:
                    prob("foreign-constant", f"{cname}.{pos}", f"constant operand %{r} of %{ins.Reference} is not in Function.Constants")
                continue
            if r in const_refs:
                continue
            if r not in instr_refs:
                prob("dangling-operand", f"{cname}.{pos}", f"operand {pos} of %{ins.Reference} ({ins.OpCode.name}) refers to %{r}, which is not an instruction of the function any more")
                continue
            u.append(r)
        uses[idx] = u
        if isinstance(ins, L.BranchInstruction):
            t, f = ins.TrueBlock, ins.FalseBlock
            if not isinstance(t, L.BasicBlock) or t.Reference not in block_refs:
                prob("bad-branch-target", "true", f"branch %{ins.Reference} true target {t!r} is not a block of the function")
            if ins.Predicate is not None:
                if not isinstance(f, L.BasicBlock) or f.Reference not in block_refs:
                    prob("bad-branch-target", "false", f"conditional branch %{ins.Reference} false target {f!r} is not a block of the function")
            elif f is not None and (not isinstance(f, L.BasicBlock) or f.Reference not in block_refs):
                prob("bad-branch-target", "false-unconditional", f"branch %{ins.Reference} false target {f!r}")
        if isinstance(ins, L.ReturnInstruction) and ins.Value is None and not fn.Type.ReturnType.IsVoid():
            prob("missing-operand", "ReturnInstruction.value", f"return %{ins.Reference} of a non-void function has lost its value operand")
        if ins.OpCode.name in ("STORE", "STORE_ARRAY", "STORE_MEMBER") and getattr(ins, "Store", 0) is None:
            prob("missing-operand", f"{cname}.store", f"%{ins.Reference} ({ins.OpCode.name}) has lost the value it stores")
        if isinstance(ins, L.CallInstruction) and program is not None:
            tgt = program.Functions.get(ins.Function)
            if tgt is None:
                prob("call-unknown-function", "call", f"call %{ins.Reference} names {ins.Function!r}, not in the linked program")
            elif len(tgt.Type.Arguments) != len(ins.Arguments):
                prob("call-arity", "call", f"call %{ins.Reference} passes {len(ins.Arguments)} arguments to {ins.Function!r} which takes {len(tgt.Type.Arguments)}")
    if any(p["kind"] in ("bad-branch-target",) for p in P):
        return P  # CFG not well defined
    # 5. def-before-use on every path
    n = len(instrs)
    if n == 0:
        return P
    offset = {}
    pos = 0
    for bb in blocks:
        offset[bb.Reference] = pos
        pos += len(bb.Instructions)
    succ = [[] for _ in range(n)]
    for i, ins in enumerate(instrs):
        op = ins.OpCode.name
        if op == "BRANCH":
            ts = [offset[ins.TrueBlock.Reference]]
            if ins.Predicate is not None:
                ts.append(offset[ins.FalseBlock.Reference])
            succ[i] = [t for t in ts if t < n]   # a jump to an empty last block ends the function
        elif op == "RETURN":
            succ[i] = []
        elif i + 1 < n:
            succ[i] = [i + 1]
    preds = [[] for _ in range(n)]
    for i, ss in enumerate(succ):
        for s in ss:
            preds[s].append(i)
    # reachability
    reach = set()
    stack = [0]
    while stack:
        x = stack.pop()
        if x in reach:
            continue
        reach.add(x)
        stack.extend(succ[x])
    defines = [None if ins.OpCode.name in NO_RESULT else ins.Reference for ins in instrs]
    ALL = frozenset(r for r in defines if r is not None)
    IN = {i: ALL for i in reach}
    IN[0] = frozenset()
    work = list(sorted(reach))
    inw = set(work)
    while work:
        i = work.pop()
        inw.discard(i)
        ps = [p for p in preds[i] if p in reach]
        if i == 0:
            new = frozenset()
        elif ps:
            new = None
            for p in ps:
                o = IN[p] | ({defines[p]} if defines[p] is not None else set())
                new = o if new is None else (new & o)
            new = frozenset(new)
        else:
            new = frozenset()
        if new != IN[i]:
            IN[i] = new
            for s in succ[i]:
                if s in reach and s not in inw:
                    work.append(s)
                    inw.add(s)
    for i in sorted(reach):
        for r in uses.get(i, []):
            if r in instr_refs and r not in IN[i]:
                ins = instrs[i]
                prob("use-before-def", type(ins).__name__, f"%{ins.Reference} ({ins.OpCode.name}) uses %{r} which has not executed on every path reaching it")
    return P


def check_module(module, program=None, unknown_classes=None):
    from nsl import LinearIR as L

    out = []
    for fn in module.Functions.values():
        out += check_function(fn, program, L, unknown_classes)
    return out
