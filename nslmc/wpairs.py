"""Neighbour independence of the wasm back end (C06, C07): every ordered pair of the WO programs that the back end translates on
their own is compiled as ONE module (functions renamed); the module must validate (C07) and each function must compute in it
exactly what it computes in its own module (C06 - a differential oracle without expected values; the single modules themselves
are compared with the VM by family WO).  State the generator keeps from one function to the next shows only here."""
import itertools
import re

from . import pool
from .nslapi import compile_src


def _rename(src, tag):
    # every function name of the program gets the tag (f -> fA): definitions and calls
    names = set(re.findall(r"function (\w+)\(", src))
    for n in sorted(names, key=len, reverse=True):
        src = re.sub(rf"\b{n}\(", f"{n}{tag}(", src)
    return src


def _argvals(sig):
    doms = {"int": [-7, 3], "uint": [3, 12], "float": [-1.5, 2.0]}
    return list(itertools.product(*[doms[t] for t in sig]))[:4]


def singles():
    """-> list of (name, source, signature) of the WO programs for which a wasm module is emitted."""
    from . import families
    out = []
    for name, src in families.W_OUTSIDE:
        m = re.search(r"export function f\(([^)]*)\) -> (\S+)", src)
        sig = [p.strip().split()[0] for p in m.group(1).split(",") if p.strip()]
        if any(t not in ("int", "uint", "float") for t in sig) or "int g;" in src:
            continue
        res = compile_src(src + "\n", {"wasm": True})
        if res.status == "ok":
            out.append((name, src, sig))
    return out


def _run_all(data, entries):
    from . import checkers
    h = checkers.wasm_prepare(data)
    verdict = {k: (v[0], v[1] if v[0] != "ok" else None) for k, v in h.items()}
    res = {}
    if all(v[0] == "ok" for v in h.values()):
        for entry, sig in entries:
            for av in _argvals(sig):
                got = checkers.wasm_run(h, entry, [a - (1 << 32) if isinstance(a, int) and a >= 1 << 31 else a for a in av])
                res[(entry, av)] = tuple((k, got[k][0], repr(got[k][1])[:40] if got[k][0] == "ok" else None) for k in sorted(got))
    return verdict, res


def worker(job):
    """job = (lo, hi, step): first programs lo..hi-1 of the accepted list, each paired with every other one."""
    lo, hi, step = job
    S = singles()
    fails, counts = {"C06": [], "C07": []}, {}
    n = 0

    def fail(prop, key, rec):
        counts[key] = counts.get(key, 0) + 1
        if counts[key] <= 2:
            rec["key"] = key
            rec["pair"] = rec.get("pair")
            fails[prop].append(rec)

    alone = {}

    def single(i):
        if i not in alone:
            name, src, sig = S[i]
            r = compile_src(src + "\n", {"wasm": True})
            alone[i] = _run_all(r.wasm_bytes, [("f", sig)])[1]
        return alone[i]

    for i in range(lo, min(hi, len(S))):
        for j in range(len(S)):
            if i == j or (step > 1 and (i + j) % step):
                continue
            (n1, s1, g1), (n2, s2, g2) = S[i], S[j]
            src = _rename(s1, "A") + "\n" + _rename(s2, "B") + "\n"
            n += 1
            res = compile_src(src, {"wasm": True})
            c1, c2 = n1.split(";")[0], n2.split(";")[0]
            if res.status != "ok":
                fail("C06", f"C06|pairs|refused-together|{res.exc}@{res.where}|{c1}+{c2}", {"source": src, "pair": [n1, n2], "expected": "both functions translate on their own, so they translate together",
                                                                                            "observed": res.cls() + " " + (res.msg or "")})
                continue
            verdict, got = _run_all(res.wasm_bytes, [("fA", g1), ("fB", g2)])
            bad = [f"{k}: {v[1]}" for k, v in verdict.items() if v[0] != "ok"]
            if bad:
                fail("C07", f"C07|pairs|invalid|{c1}+{c2}", {"source": src, "pair": [n1, n2], "expected": "a valid module (each function alone gives one)", "observed": "; ".join(bad)[:300]})
                continue
            for (entry, sig, k, other) in (("fA", g1, i, c2), ("fB", g2, j, c1)):
                ref = single(k)
                for av in _argvals(sig):
                    a, b = ref.get(("f", av)), got.get((entry, av))
                    if a != b:
                        what = c1 if entry == "fA" else c2
                        fail("C06", f"C06|pairs|result-depends-on-neighbour|{what}|{'after' if entry == 'fB' else 'before'}:{other}",
                             {"source": src, "pair": [n1, n2], "entry": entry, "args": list(av), "expected": f"as in its own module: {a}", "observed": str(b)})
                        break
    return n, fails, counts


def run(prop, tier):
    with pool.quiet():
        total = len(singles())
    step = 1 if tier == "thorough" else 1
    jobs = [(lo, lo + 2, step) for lo in range(0, total, 2)]
    n, fl, counts = 0, [], {}
    for a, f, c in pool.pmap(worker, jobs):
        n += a
        for rec in f[prop]:
            rec.setdefault("job", None)
            fl.append(rec)
        for k, v in c.items():
            if k.startswith(prop):
                counts[k] = counts.get(k, 0) + v
    seen, uniq = set(), []
    for f in fl:
        if f["key"] not in seen:
            seen.add(f["key"])
            f.pop("job", None)
            uniq.append(f)
    return total, n, uniq, counts


def replay(rec, verbose=True):
    S = singles()
    names = [s[0] for s in S]
    i, j = names.index(rec["pair"][0]), names.index(rec["pair"][1])
    saved = worker.__globals__["singles"]
    n, fails, counts = worker((i, i + 1, 1))
    prop = rec["key"].split("|")[0]
    hit = [f for f in fails[prop] if f["key"] == rec["key"]]
    if verbose:
        print(rec["source"])
        print("expected:", rec["expected"], "\nobserved:", hit[0]["observed"] if hit else "as expected")
    return bool(hit)
