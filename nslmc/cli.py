"""./check <ID> [--tier quick|thorough] [--replay FILE]"""
import argparse
import importlib
import json
import os
import subprocess
import sys
import time

from . import evidence, findings, snapshot

VERIF = evidence.VERIF


def _confirm(prop):
    def confirm(path):
        if os.environ.get("NSLMC_NO_CONFIRM"):
            return True
        env = dict(os.environ)
        env.pop("NSLMC_SNAPSHOT", None)
        env["PYTHONHASHSEED"] = "0"
        r = subprocess.run(
            [sys.executable, "-m", "nslmc.cli", prop, "--replay", path, "--quiet"],
            cwd=VERIF, env=env, stdout=subprocess.PIPE, stderr=subprocess.STDOUT, timeout=600,
        )
        return r.returncode == 1

    return confirm


def main(argv=None):
    ap = argparse.ArgumentParser()
    ap.add_argument("prop")
    ap.add_argument("--tier", default=os.environ.get("VERIF_TIER", "quick"), choices=["quick", "thorough"])
    ap.add_argument("--replay")
    ap.add_argument("--quiet", action="store_true")
    a = ap.parse_args(argv)
    prop = a.prop.upper()
    seed = int(os.environ.get("VERIF_SEED", "0") or 0)
    if os.environ.get("PYTHONHASHSEED") != "0" and not os.environ.get("NSLMC_KEEP_HASHSEED"):
        env = dict(os.environ)
        env["PYTHONHASHSEED"] = "0"
        os.execve(sys.executable, [sys.executable, "-m", "nslmc.cli"] + (argv or sys.argv[1:]), env)
    sys.setrecursionlimit(10000)
    from . import fastarena

    fastarena.install()
    t0 = time.time()
    snapshot.activate()
    mod = importlib.import_module(f"nslmc.props.{prop.lower()}")
    if a.replay:
        rec = json.load(open(a.replay))
        reproduced = mod.replay(rec, verbose=not a.quiet)
        if not a.quiet:
            print("REPRODUCED" if reproduced else "NOT REPRODUCED")
        return 1 if reproduced else 0
    res = mod.run(a.tier, seed)
    wall = time.time() - t0
    if os.environ.get("NSLMC_DUMP"):
        json.dump(res["failures"], open(os.environ["NSLMC_DUMP"], "w"), indent=1, default=str)
    nviol, known_hits = findings.settle(prop, res["failures"], confirm=_confirm(prop))
    cov = dict(res["coverage"])
    cov["known_finding_hits"] = known_hits
    cov["violation_keys"] = nviol
    evidence.write(prop, a.tier, seed, res["level"], cov, time.time() - t0, nviol, res.get("assumptions", ()))
    ev = cov.get("evaluations", cov.get("transitions"))
    print(f"{prop} tier={a.tier} seed={seed} evaluations={ev} distinct_nontrivial={cov.get('distinct_nontrivial')}"
          f" states={cov.get('states')} exhaustive={cov.get('exhaustive')} violations={nviol}"
          f" known={len(known_hits)} wall={time.time() - t0:.1f}s")
    return 1 if nviol else 0


if __name__ == "__main__":
    sys.exit(main())
