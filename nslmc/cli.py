"""./check <ID> [--tier quick|thorough] [--replay FILE]"""
import argparse
import importlib
import json
import os
import subprocess
import sys
import time

from . import evidence, findings, snapshot

VERIF = evidence.VERIF


def _confirm(prop):
    def confirm(path):
        if os.environ.get("NSLMC_NO_CONFIRM"):
            return True
        env = dict(os.environ)
        env.pop("NSLMC_SNAPSHOT", None)
        env["PYTHONHASHSEED"] = "0"
        try:
            r = subprocess.run(
                [sys.executable, "-m", "nslmc.cli", prop, "--replay", path, "--quiet"],
                cwd=VERIF, env=env, stdout=subprocess.PIPE, stderr=subprocess.STDOUT, timeout=600,
            )
            if r.returncode == 1:
                return True
        except subprocess.TimeoutExpired:
            pass        # a replay that does not come back is no confirmation; the job re-run below decides
        # the case alone does not fail in a fresh process: it may need the history of its job (process-global state in the
        # code under test).  Jobs are hermetic, so re-executing the whole job in a fresh process replays that history exactly.
        rec = json.load(open(path))
        if "job" not in rec:
            return False
        r = subprocess.run(
            [sys.executable, "-m", "nslmc.cli", prop, "--rejob", path, "--quiet"],
            cwd=VERIF, env=env, stdout=subprocess.PIPE, stderr=subprocess.STDOUT, timeout=3000,
        )
        if r.returncode == 1:
            rec["history_dependent"] = "fails only after the earlier cases of its job; replay with ./check %s --rejob <this file>" % prop
            json.dump(rec, open(path, "w"), indent=1, default=str)
            return True
        return False

    return confirm


def _tuplify(x):
    if isinstance(x, list):
        return tuple(_tuplify(y) for y in x)
    return x


def _find_key(o, key):
    if isinstance(o, dict):
        if o.get("key") == key:
            return True
        return any(_find_key(v, key) for v in o.values())
    if isinstance(o, (list, tuple)):
        return any(_find_key(v, key) for v in o)
    return False


def main(argv=None):
    ap = argparse.ArgumentParser()
    ap.add_argument("prop")
    ap.add_argument("--tier", default=os.environ.get("VERIF_TIER", "quick"), choices=["quick", "thorough"])
    ap.add_argument("--replay")
    ap.add_argument("--rejob")
    ap.add_argument("--quiet", action="store_true")
    a = ap.parse_args(argv)
    prop = a.prop.upper()
    seed = int(os.environ.get("VERIF_SEED", "0") or 0)
    if os.environ.get("PYTHONHASHSEED") != "0" and not os.environ.get("NSLMC_KEEP_HASHSEED"):
        env = dict(os.environ)
        env["PYTHONHASHSEED"] = "0"
        os.execve(sys.executable, [sys.executable, "-m", "nslmc.cli"] + (argv or sys.argv[1:]), env)
    sys.setrecursionlimit(10000)
    from . import fastarena

    fastarena.install()
    t0 = time.time()
    snapshot.activate()
    mod = importlib.import_module(f"nslmc.props.{prop.lower()}")
    if a.rejob:
        rec = json.load(open(a.rejob))
        modname, fname = rec["job"]["fn"].split(":")
        fn = getattr(importlib.import_module(modname), fname)
        arg = _tuplify(rec["job"]["arg"])
        os.environ["NSLMC_INPROCESS"] = "1"
        from . import pool
        with pool.quiet():
            out = fn(arg)
        hit = _find_key(out, rec["key"])
        if not a.quiet:
            print("REPRODUCED (history-dependent)" if hit else "NOT REPRODUCED")
        return 1 if hit else 0
    if a.replay:
        rec = json.load(open(a.replay))
        reproduced = mod.replay(rec, verbose=not a.quiet)
        if not a.quiet:
            print("REPRODUCED" if reproduced else "NOT REPRODUCED")
        return 1 if reproduced else 0
    os.environ["NSLMC_TIER"] = a.tier      # inherited by the spawned workers
    res = mod.run(a.tier, seed)
    wall = time.time() - t0
    if os.environ.get("NSLMC_DUMP"):
        json.dump(res["failures"], open(os.environ["NSLMC_DUMP"], "w"), indent=1, default=str)
    nviol, known_hits = findings.settle(prop, res["failures"], confirm=_confirm(prop))
    cov = dict(res["coverage"])
    cov["known_finding_hits"] = known_hits
    cov["violation_keys"] = nviol
    evidence.write(prop, a.tier, seed, res["level"], cov, time.time() - t0, nviol, res.get("assumptions", ()))
    ev = cov.get("evaluations", cov.get("transitions"))
    print(f"{prop} tier={a.tier} seed={seed} evaluations={ev} distinct_nontrivial={cov.get('distinct_nontrivial')}"
          f" states={cov.get('states')} exhaustive={cov.get('exhaustive')} violations={nviol}"
          f" known={len(known_hits)} wall={time.time() - t0:.1f}s")
    return 1 if nviol else 0


if __name__ == "__main__":
    sys.exit(main())
