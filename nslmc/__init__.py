"""nslmc - bounded-exhaustive model checking harness for Anteru/nsl (see DESIGN.md)."""
