"""Bounded-exhaustive program families (DESIGN.md section 4).  generate(name, tier) yields cases
in a fixed order; every member of the stated space is produced exactly once."""
import copy
import functools
import itertools

from . import lang
from .lang import BINOPS, CMPOPS, func, lit

REGISTRY = {}


def family(name):
    def deco(fn):
        REGISTRY[name] = fn
        return fn
    return deco


def generate(name, tier, shard=0, nshards=1):
    """Yield the cases of shard `shard` (seed index % nshards == shard).  A family function yields
    cheap *seeds* (build_function, args...); the case is only built for the seeds of this shard."""
    for i, seed in enumerate(REGISTRY[name](tier)):
        if i % nshards == shard:
            if isinstance(seed, dict):
                yield seed
            else:
                yield seed[0](*seed[1:])


def stype(e, tenv):
    """Static type of a scalar expression (C09 scalar rules)."""
    k = e[0]
    if k == "lit":
        return e[1]
    if k == "var":
        return tenv[e[1]]
    if k == "bin":
        if e[1] in CMPOPS:
            return "int"
        a, b = stype(e[2], tenv), stype(e[3], tenv)
        return "float" if "float" in (a, b) else "int" if "int" in (a, b) else "uint"
    raise ValueError(e)


def used_vars(e, acc=None):
    acc = set() if acc is None else acc
    if e[0] == "var":
        acc.add(e[1])
    elif e[0] == "bin":
        used_vars(e[2], acc)
        used_vars(e[3], acc)
    return acc


def ops_of(e, acc=None):
    acc = [] if acc is None else acc
    if e[0] == "bin":
        acc.append(e[1])
        ops_of(e[2], acc)
        ops_of(e[3], acc)
    return acc


# =============================================================================================
# E: scalar expression trees
# =============================================================================================
E_PARAMS = [("int", "a"), ("int", "b"), ("float", "x")]
E_TENV = {"a": "int", "b": "int", "x": "float"}
E_LEAVES = [("var", "a"), ("var", "b"), ("var", "x"), lit(2), lit(0.5), lit(-3)]
E_LEAVES_SMALL = [("var", "a"), ("var", "x"), lit(2)]
A_VALUES = {"quick": (-7, -2, 0, 1, 3), "thorough": (-7, -2, -1, 0, 1, 2, 3, 7)}
# the last value of each tuple is a Python int passed for the float parameter (the suite itself passes ints for floats)
X_VALUES = {"quick": (-0.5, 0.0, 2.0, 3), "thorough": (-1.5, -0.5, 0.0, 0.5, 2.0, 3.0, 3, -2)}


def expr_trees(n, leaves):
    """All binary expression trees with exactly n operators."""
    if n == 0:
        for l in leaves:
            yield l
        return
    for k in range(n):
        for op in BINOPS:
            for l in expr_trees(k, leaves):
                for r in expr_trees(n - 1 - k, leaves):
                    yield ("bin", op, l, r)


def e_inputs(e, tier):
    used = sorted(used_vars(e))
    doms = []
    for v in used:
        doms.append(X_VALUES[tier] if v == "x" else A_VALUES[tier])
    out = []
    for vals in itertools.product(*doms):
        args = {"a": 1, "b": 1, "x": 1.0}
        args.update(dict(zip(used, vals)))
        out.append((args, {}))
    return out


def _e_pack(fam, tier, mode, trees):
    units = []
    for e in trees:
        t = stype(e, E_TENV)
        name = f"f{len(units)}"
        ops = ops_of(e)
        units.append({"funcs": [func(name, E_PARAMS, t, [("ret", e)])], "entry": name, "inputs": e_inputs(e, tier),
                      "desc": "ops=" + ",".join(sorted(set(ops))) + ";operands=" + "".join(sorted({stype(x, E_TENV)[0] for x in _leaves(e)}))})
    return {"fam": fam, "desc": "pack", "units": units, "mode": mode}


def _e_cases(trees, tier, fam, pack=24):
    for mode in ("min", "full"):
        buf = []
        for e in trees():
            if mode == "full" and not (e[0] == "bin" and (e[2][0] == "bin" or e[3][0] == "bin")):
                continue  # identical text to the minimal rendering
            buf.append(e)
            if len(buf) == pack:
                yield (_e_pack, fam, tier, mode, buf)
                buf = []
        if buf:
            yield (_e_pack, fam, tier, mode, buf)


def _leaves(e):
    if e[0] == "bin":
        return _leaves(e[2]) + _leaves(e[3])
    return [e]


@family("E")
def fam_E(tier):
    def trees():
        for n in (0, 1, 2):
            yield from expr_trees(n, E_LEAVES)
        if tier == "thorough":
            yield from expr_trees(3, E_LEAVES_SMALL)
    return _e_cases(trees, tier, "E")


@family("E1")
def fam_E1(tier):
    """Reduced expression family for the differential / structural checks' quick tier."""
    def trees():
        for n in (0, 1):
            yield from expr_trees(n, E_LEAVES)
        yield from expr_trees(2, E_LEAVES_SMALL)
    return _e_cases(trees, tier, "E1")


# =============================================================================================
# S: control flow statement trees with a trace variable
# =============================================================================================
MOD = 65521


def atom(k):
    # t = (t * 31 + k) % 65521
    return ("expr", ("asg", "=", ("var", "t"), ("bin", "%", ("bin", "+", ("bin", "*", ("var", "t"), lit(31)), lit(k)), lit(MOD))))


def compositions(n, kmin, kmax):
    """Ordered tuples of positive ints summing to n with kmin..kmax parts."""
    def rec(rest, parts):
        if len(parts) >= kmin and rest == 0:
            yield tuple(parts)
        if len(parts) < kmax:
            for a in range(1, rest + 1):
                yield from rec(rest - a, parts + [a])
    yield from rec(n, [])


def stmt_skeletons(n, in_loop, allow_block=True):
    """All statement skeletons of exactly n nodes.  Leaves: 'A' atom, 'B' break, 'C' continue, 'R' return."""
    if n == 1:
        yield ("A",)
        yield ("R",)
        if in_loop:
            yield ("B",)
            yield ("C",)
        return
    # if / loops with one body
    for body in stmt_skeletons(n - 1, in_loop):
        yield ("if", body)
    for kind in ("for", "while", "do"):
        for body in stmt_skeletons(n - 1, True):
            yield (kind, body)
    # if/else
    for a in range(1, n - 1):
        for s1 in stmt_skeletons(a, in_loop):
            for s2 in stmt_skeletons(n - 1 - a, in_loop):
                yield ("ifelse", s1, s2)
    # blocks of 2..3 children (children are not blocks themselves)
    if allow_block:
        for parts in compositions(n, 2, 3):
            for kids in itertools.product(*[list(stmt_skeletons(p, in_loop, False)) for p in parts]):
                yield ("seq",) + kids


def count_skeletons(n):
    return sum(1 for _ in stmt_skeletons(n, False))


class _Build:
    """Turns a skeleton into miniast statements: numbers atoms, owns loop counters, picks conditions."""

    def __init__(self, variant):
        self.variant = variant
        self.atoms = 0
        self.loops = 0
        self.conds = 0
        self.feat = set()

    def cond(self, counters):
        i = (self.conds + self.variant) % 3
        self.conds += 1
        if i == 0:
            return ("bin", ">", ("var", "a"), lit(1))
        if i == 1:
            return ("bin", "==", ("bin", "%", ("var", "t"), lit(2)), lit(0))
        if counters:
            return ("bin", "<", ("var", counters[-1]), lit(1))
        return ("bin", "<", ("var", "a"), lit(2))

    def build(self, sk, counters):
        """-> list of statements (a loop may need a counter declaration in front of it)."""
        k = sk[0]
        if k == "A":
            self.atoms += 1
            return [atom(self.atoms)]
        if k == "R":
            self.feat.add("return")
            return [("ret", ("var", "t"))]
        if k == "B":
            self.feat.add("break")
            return [("break",)]
        if k == "C":
            self.feat.add("continue")
            return [("continue",)]
        if k == "seq":
            out = []
            for kid in sk[1:]:
                out += self.build(kid, counters)
            return [("block", out)]
        if k == "if":
            c = self.cond(counters)
            return [("if", c, ("block", self.build(sk[1], counters)), None)]
        if k == "ifelse":
            c = self.cond(counters)
            self.feat.add("else")
            return [("if", c, ("block", self.build(sk[1], counters)), ("block", self.build(sk[2], counters)))]
        self.loops += 1
        n = self.loops
        self.feat.add(k)
        if len(counters) >= 1:
            self.feat.add("nested")
        bound = 2 if counters else 3
        lv = (n + self.variant) % 3
        if k == "for":
            cn = f"i{n}"
            limit = ("bin", "<", ("var", cn), lit(bound)) if lv != 1 else ("bin", "&&", ("bin", "<", ("var", cn), ("var", "a")), ("bin", "<", ("var", cn), lit(bound)))
            body = self.build(sk[1], counters + [cn])
            return [("for", ("decl", "int", cn, lit(0)), limit, ("pre", "++", cn), ("block", body))]
        cn = f"w{n}"
        inc = ("expr", ("asg", "=", ("var", cn), ("bin", "+", ("var", cn), lit(1))))
        body = self.build(sk[1], counters + [cn])
        if lv == 1:
            limit = ("bin", "&&", ("bin", "<", ("var", cn), ("var", "a")), ("bin", "<", ("var", cn), lit(bound)))
        elif lv == 2:
            limit = ("bin", "&&", ("bin", "<", ("bin", "%", ("var", "t"), lit(7)), lit(6)), ("bin", "<", ("var", cn), lit(bound)))
        else:
            limit = ("bin", "<", ("var", cn), lit(bound))
        if k == "while":
            return [("decl", "int", cn, lit(0)), ("while", limit, ("block", [inc] + body))]
        return [("decl", "int", cn, lit(0)), ("do", ("block", [inc] + body), limit)]


def s_case(sk, variant, fam="S"):
    b = _Build(variant)
    body = [("decl", "int", "t", lit(1))] + b.build(sk, []) + [("ret", ("var", "t"))]
    f = func("f", [("int", "a")], "int", body)
    desc = "stmts=" + ",".join(sorted(b.feat)) if b.feat else "stmts=plain"
    return {"fam": fam, "desc": desc, "units": [{"funcs": [f], "entry": "f", "inputs": [({"a": v}, {}) for v in (0, 1, 2, 5)]}]}


def s_pair_case(sk1, sk2):
    """Two statement skeletons as two functions of ONE module, invoked alternately on one VM (engine: reused-VM pass)."""
    c1, c2 = s_case(sk1, 0), s_case(sk2, 1)
    g = dict(c2["units"][0]["funcs"][0], name="g")
    u2 = {"funcs": [g], "entry": "g", "inputs": c2["units"][0]["inputs"]}
    return {"fam": "S", "desc": "two-functions;" + c1["desc"] + ";" + c2["desc"], "units": [c1["units"][0], u2]}


def _has(sk, kinds):
    if sk[0] in kinds:
        return 1 + sum(_has(k, kinds) for k in sk[1:] if isinstance(k, tuple))
    return sum(_has(k, kinds) for k in sk[1:] if isinstance(k, tuple))


@family("S")
def fam_S(tier):
    top = 5 if tier == "quick" else 6
    for n in range(1, top + 1):
        for sk in stmt_skeletons(n, False):
            if _has(sk, ("for", "while", "do", "if", "ifelse")) == 0 and n > 2:
                continue
            if tier == "thorough":
                variants = (0, 1, 2) if n <= 5 else (n % 3,)
            else:
                variants = (0, 1, 2) if n <= 4 else (n % 3,)
            for variant in variants:
                yield (s_case, sk, variant)
    # every ordered pair of the small skeletons with control flow as two functions of one module
    small = [sk for n in (2, 3) for sk in stmt_skeletons(n, False) if _has(sk, ("for", "while", "do", "if", "ifelse"))]
    for i, a in enumerate(small):
        for j, b in enumerate(small):
            if i != j and (i + j) % (4 if tier == "thorough" else 16) == 0:
                yield (s_pair_case, a, b)


# =============================================================================================
# D: storage locations x assignment forms, with read-back of every location in scope
# =============================================================================================
def V(n):
    return ("var", n)


def IDX(b, i):
    return ("idx", b, i if isinstance(i, tuple) else lit(i))


def FLD(b, f):
    return ("fld", b, f)


def B(op, l, r):
    return ("bin", op, l, r)


def ASG(lv, e, op="="):
    return ("expr", ("asg", op, lv, e))


def d_skeleton(T, shape):
    """Declarations, distinct initial values and the list of (selector expr) read-backs."""
    r0, r1 = shape
    num = (lambda k: lit(float(k))) if T == "float" else (lambda k: lit(k))
    structs = [("P", [(T, "fa"), (T, "hb")]), ("Q", [(("arr", T, (2,)), "arr"), (T, "k")])]
    globals_ = [(T, "g"), (("arr", T, (3,)), "ga"), (("struct", "P"), "gs"), (("arr", ("struct", "P"), (2,)), "gas")]
    decls = [("decl", T, "v", num(3)), ("decl", T, "r", num(0)), ("decl", ("arr", T, (3,)), "la", None),
             ("decl", ("arr", T, (r0, r1)), "m", None), ("decl", ("struct", "P"), "s", None),
             ("decl", ("struct", "Q"), "q", None)]
    locs = [V("v"), V("p"), V("r")]
    init = []
    k = 10

    def put(lv):
        nonlocal k
        init.append(ASG(lv, num(k)))
        locs.append(lv)
        k += 1

    for i in range(3):
        put(IDX(V("la"), i))
    for i in range(r0):
        for j in range(r1):
            put(IDX(IDX(V("m"), i), j))
    put(FLD(V("s"), "fa"))
    put(FLD(V("s"), "hb"))
    put(IDX(FLD(V("q"), "arr"), 0))
    put(IDX(FLD(V("q"), "arr"), 1))
    put(FLD(V("q"), "k"))
    return structs, globals_, decls + init, locs


def d_globals(T):
    c = (lambda k: float(k)) if T == "float" else (lambda k: k)
    return {"g": c(40), "ga": [c(41), c(42), c(43)], "gs": {"fa": c(44), "hb": c(45)},
            "gas": [{"fa": c(46), "hb": c(47)}, {"fa": c(48), "hb": c(49)}]}


def d_case(T, shape, write, desc, dyn):
    structs, globals_, setup, locs = d_skeleton(T, shape)
    zero = lit(0.0) if T == "float" else lit(0)
    readback = [("if", B("==", V("sel"), lit(n)), ("block", [("ret", lv)]), None) for n, lv in enumerate(locs)]
    body = setup + write + readback + [("ret", zero)]
    f = func("f", [("int", "sel"), ("int", "i"), ("int", "a"), ("float", "x"), (T, "p")], T, body)
    inputs = []
    pv = 7.0 if T == "float" else 7
    ivals = dyn if dyn else (0,)
    for i in ivals:
        for a, x in ((2, 1.5), (-3, 0.5)):
            for sel in range(len(locs)):
                inputs.append(({"sel": sel, "i": i, "a": a, "x": x, "p": pv}, d_globals(T)))
    return {"fam": "D", "desc": desc, "prog": {"structs": structs, "globals": globals_},
            "units": [{"funcs": [f], "entry": "f", "inputs": inputs}]}


def d_locations(shape):
    r0, r1 = shape
    I = V("i")
    return [
        ("local", V("v"), None), ("param", V("p"), None), ("global", V("g"), None),
        ("arr-const", IDX(V("la"), 1), None), ("arr-dyn", IDX(V("la"), I), (0, 2)),
        ("arr2-const", IDX(IDX(V("m"), r0 - 1), r1 - 1), None), ("arr2-dyn-outer", IDX(IDX(V("m"), I), 1), tuple(range(r0))),
        ("arr2-dyn-inner", IDX(IDX(V("m"), 1), I), tuple(range(r1))),
        ("field", FLD(V("s"), "fa"), None), ("garr-of-struct-const", FLD(IDX(V("gas"), 1), "hb"), None),
        ("garr-of-struct-dyn", FLD(IDX(V("gas"), I), "fa"), (0, 1)), ("struct-arr-const", IDX(FLD(V("q"), "arr"), 1), None),
        ("struct-arr-dyn", IDX(FLD(V("q"), "arr"), I), (0, 1)), ("struct-field-after-arr", FLD(V("q"), "k"), None),
        ("garr-const", IDX(V("ga"), 1), None), ("garr-dyn", IDX(V("ga"), I), (0, 2)), ("gfield", FLD(V("gs"), "hb"), None),
    ]


def d_rhs(T):
    if T == "int":
        return [("lit", lit(2)), ("var", V("a")), ("sum", B("+", V("a"), lit(1))), ("diff", B("-", V("a"), V("i")))]
    return [("lit", lit(1.5)), ("var", V("x")), ("prod", B("*", V("x"), lit(2))), ("intvar", V("a")), ("mixed", B("+", V("x"), V("a")))]


def d_deep_case(T, dims, storage, mode):
    """Arrays of three and four dimensions: every cell is its own storage location (cells that differ only in an OUTER index too)."""
    import itertools as it
    num = (lambda k: lit(float(k))) if T == "float" else (lambda k: lit(k))
    cells = list(it.product(*[range(d) for d in dims]))
    at = lambda c: functools.reduce(lambda e, i: IDX(e, i), c, V("t"))
    decl = [] if storage == "global" else [("decl", ("arr", T, tuple(dims)), "t", None)]
    if mode == "fill":
        writes = [ASG(at(c), num(10 + n)) for n, c in enumerate(cells)]
        inputs_w = [{}]
    elif mode == "one-dyn":
        # one cell written through dynamic indices (parameters), every cell read back
        writes = [ASG(functools.reduce(lambda e, n: IDX(e, V(n)), ["i0", "i1", "i2", "i3"][:len(dims)], V("t")), num(77))]
        inputs_w = [dict(zip(["i0", "i1", "i2", "i3"], c)) for c in cells]
    else:
        raise ValueError(mode)
    body = decl + writes + [("if", B("==", V("sel"), lit(n)), ("block", [("ret", at(c))]), None) for n, c in enumerate(cells)] + [("ret", num(0))]
    params = [("int", "sel")] + [("int", n) for n in ["i0", "i1", "i2", "i3"][:len(dims)]]
    f = func("f", params, T, body)
    zero = 0.0 if T == "float" else 0
    g0 = functools.reduce(lambda v, d: [copy.deepcopy(v) for _ in range(d)], reversed(dims), zero)
    inputs = []
    for w in inputs_w:
        for sel in range(len(cells)):
            a = {"sel": sel, **{n: 0 for n in ["i0", "i1", "i2", "i3"][:len(dims)]}}
            a.update(w)
            inputs.append((a, {"t": copy.deepcopy(g0)} if storage == "global" else {}))
    return {"fam": "D", "desc": f"deep-array;dims={len(dims)};{storage};{mode};type={T}", "prog": {"globals": [(("arr", T, tuple(dims)), "t")] if storage == "global" else []},
            "units": [{"funcs": [f], "entry": "f", "inputs": inputs}]}


@family("D")
def fam_D(tier):
    for T in ("int", "float"):
        for dims in ((2, 2, 2), (2, 3, 2), (3, 1, 2), (2, 2, 2, 2)):
            for storage in ("local", "global"):
                for mode in ("fill", "one-dyn"):
                    if tier == "quick" and T == "float" and dims != (2, 2, 2):
                        continue
                    yield (d_deep_case, T, dims, storage, mode)
    shapes = [(2, 3), (3, 2), (2, 2)]
    for T in ("int", "float"):
        for si, shape in enumerate(shapes):
            for lname, lv, dyn in d_locations(shape):
                if si > 0 and not lname.startswith("arr2"):
                    continue
                for op in ("=", "+=", "-=", "*=", "/="):
                    for rname, rhs in d_rhs(T):
                        yield (d_case, T, shape, [ASG(lv, rhs, op)], f"loc={lname};form={op};type={T}", dyn)
        # ++/-- on plain variables, as statement and as the single side-effecting operand
        for lname in ("v", "p", "g"):
            for kind in ("pre", "post"):
                for op in ("++", "--"):
                    af = (kind, op, lname)
                    yield (d_case, T, shapes[0], [("expr", af)], f"loc={lname};form={kind}{op};type={T}", None)
                    yield (d_case, T, shapes[0], [ASG(V("r"), B("*", af, lit(2)))], f"loc={lname};form={kind}{op}-operand;type={T}", None)
                    yield (d_case, T, shapes[0], [ASG(V("r"), B("-", lit(5), af))], f"loc={lname};form={kind}{op}-operand;type={T}", None)
                    yield (d_case, T, shapes[0], [ASG(IDX(V("la"), 1), af)], f"loc={lname};form={kind}{op}-stored;type={T}", None)


# =============================================================================================
# R: declarations re-executed inside loops (zero-/re-initialisation, fresh aggregates)
# =============================================================================================
def r_case(kind, loop, place, pos):
    T = "float" if kind == "float" else "int"
    structs = [("P", [("int", "fa"), ("int", "hb")]), ("PA", [(("arr", "int", (2,)), "ar"), (("struct", "P"), "inner")])]
    bump = lambda lv: ASG(lv, B("+", B("+", lv, V("n")), lit(1)))
    tr = lambda e: ASG(V("t"), B("%", B("+", B("*", V("t"), lit(31)), e), lit(MOD)))
    if kind == "int":
        decl, uses = ("decl", "int", "v", None), [bump(V("v")), tr(V("v"))]
    elif kind == "int-init":
        decl, uses = ("decl", "int", "v", lit(5)), [bump(V("v")), tr(V("v"))]
    elif kind == "float":
        decl, uses = ("decl", "float", "v", None), [bump(V("v")), ASG(V("u"), B("+", V("u"), V("v")))]
    elif kind == "array":
        decl, uses = ("decl", ("arr", "int", (2,)), "v", None), [bump(IDX(V("v"), 1)), tr(B("+", IDX(V("v"), 0), IDX(V("v"), 1)))]
    elif kind == "array2":
        decl = ("decl", ("arr", "int", (2, 2)), "v", None)
        uses = [bump(IDX(IDX(V("v"), 1), 0)), tr(B("+", B("+", IDX(IDX(V("v"), 0), 0), IDX(IDX(V("v"), 0), 1)), B("+", IDX(IDX(V("v"), 1), 0), IDX(IDX(V("v"), 1), 1))))]
    elif kind == "struct":
        decl, uses = ("decl", ("struct", "P"), "v", None), [bump(FLD(V("v"), "hb")), tr(B("+", FLD(V("v"), "fa"), FLD(V("v"), "hb")))]
    elif kind == "struct-array-field":
        decl, uses = ("decl", ("struct", "PA"), "v", None), [bump(IDX(FLD(V("v"), "ar"), 1)), tr(B("+", IDX(FLD(V("v"), "ar"), 0), IDX(FLD(V("v"), "ar"), 1)))]
    elif kind == "struct-nested-field":
        decl, uses = ("decl", ("struct", "PA"), "v", None), [bump(FLD(FLD(V("v"), "inner"), "hb")), tr(B("+", FLD(FLD(V("v"), "inner"), "fa"), FLD(FLD(V("v"), "inner"), "hb")))]
    elif kind == "array-of-vectors":
        decl = ("decl", ("arr", ("vec", "int", 2), (2,)), "v", None)
        uses = [bump(IDX(IDX(V("v"), 1), 0)), tr(B("+", B("+", IDX(IDX(V("v"), 0), 0), IDX(IDX(V("v"), 0), 1)), B("+", IDX(IDX(V("v"), 1), 0), IDX(IDX(V("v"), 1), 1))))]
    else:
        raise ValueError(kind)
    core = [decl] + uses if pos == "first" else [tr(lit(7)), decl] + uses
    if place == "body":
        inner = core
    elif place == "block":
        inner = [("block", core), tr(lit(3))]
    elif place == "if":
        inner = [("if", B("<", V("n"), lit(5)), ("block", core), None)]
    elif place == "nested":
        inner = [("for", ("decl", "int", "j", lit(0)), B("<", V("j"), lit(2)), ("pre", "++", "j"), ("block", core))]
    inc = ASG(V("n"), B("+", V("n"), lit(1)))
    if loop == "for":
        loopst = [("for", ("decl", "int", "k", lit(0)), B("<", V("k"), lit(3)), ("pre", "++", "k"), ("block", inner + [inc]))]
    elif loop == "while":
        loopst = [("while", B("<", V("n"), lit(3)), ("block", inner + [inc]))]
    else:
        loopst = [("do", ("block", inner + [inc]), B("<", V("n"), lit(3)))]
    body = [("decl", "int", "t", lit(1)), ("decl", "int", "n", lit(0)), ("decl", "float", "u", lit(0.0))] + loopst
    ret = "float" if kind == "float" else "int"
    body += [("ret", V("u") if kind == "float" else V("t"))]
    f = func("f", [("int", "a")], ret, body)
    return {"fam": "R", "desc": f"decl={kind};loop={loop};place={place}", "prog": {"structs": structs},
            "units": [{"funcs": [f], "entry": "f", "inputs": [({"a": 0}, {})]}]}


def r_sibling_case(kind, first_scope, second_scope):
    """Two disjoint sibling scopes declare the same name; the second declaration has no initialiser and must start at zero."""
    T = {"int": "int", "float": "float", "array": ("arr", "int", (2,)), "struct": ("struct", "P")}[kind]
    acc = (lambda v: v) if kind in ("int", "float") else ((lambda v: IDX(v, 1)) if kind == "array" else (lambda v: FLD(v, "hb")))
    seven = lit(7.0) if kind == "float" else lit(7)
    first = [("decl", T, "v", None), ASG(acc(V("v")), seven), ASG(V("t"), B("+", V("t"), acc(V("v"))))]
    second = [("decl", T, "v", None), ASG(acc(V("v")), B("+", acc(V("v")), V("n"))), ASG(V("t"), B("+", B("*", V("t"), lit(10)), acc(V("v"))))]

    def wrap(kind_, body):
        if kind_ == "block":
            return [("block", body)]
        if kind_ == "if":
            return [("if", B("<", V("n"), lit(9)), ("block", body), None)]
        if kind_ == "else":
            return [("if", B(">", V("n"), lit(9)), ("block", [ASG(V("t"), lit(0))]), ("block", body))]
        if kind_ == "for":
            return [("for", ("decl", "int", "q" + str(len(body)), lit(0)), B("<", V("q" + str(len(body))), lit(2)), ("pre", "++", "q" + str(len(body))), ("block", body + [ASG(V("n"), B("+", V("n"), lit(1)))]))]
        raise ValueError(kind_)
    rt = "float" if kind == "float" else "int"
    body = [("decl", rt, "t", lit(1.0) if kind == "float" else lit(1)), ("decl", "int", "n", lit(1))] + wrap(first_scope, first) + wrap(second_scope, second + [ASG(V("n"), B("+", V("n"), lit(1)))]) + [("ret", V("t"))]
    f = func("f", [("int", "a")], rt, body)
    return {"fam": "R", "desc": f"sibling-reuse;decl={kind};{first_scope}-then-{second_scope}", "prog": {"structs": [("P", [("int", "fa"), ("int", "hb")])]},
            "units": [{"funcs": [f], "entry": "f", "inputs": [({"a": 0}, {})]}]}


@family("R")
def fam_R(tier):
    for kind in ("int", "float", "array", "struct"):
        for first_scope in ("block", "if", "for"):
            for second_scope in ("block", "if", "else", "for"):
                yield (r_sibling_case, kind, first_scope, second_scope)
    for kind in ("int", "int-init", "float", "array", "array2", "struct", "struct-array-field", "struct-nested-field", "array-of-vectors"):
        for loop in ("for", "while", "do"):
            for place in ("body", "block", "if", "nested"):
                for pos in ("first", "middle"):
                    yield (r_case, kind, loop, place, pos)


# =============================================================================================
# O: store -> load context grid (optimiser: load-after-store forwarding, constant casts)
#    cases carry source text directly; used differentially (C02) and by the IR checker (C14)
# =============================================================================================
O_TYPES = {
    # name: (type text, expression over the parameters, second expression, param list entries)
    "int": ("int", "a + 1", "a - 2"),
    "float": ("float", "x * 2.0", "x + 0.5"),
    "float4": ("float4", "w4 * 2.0", "w4 + w4"),
    "float3": ("float3", "w3 * 2.0", "w3 + w3"),
    "float3x3": ("float3x3", "m3 * 2.0", "m3 + m3"),
    "P": ("P", "ps", "ps2"),
    "int[3]": ("int[3]", "arr", "arr2"),
}
O_PARAMS = "int a, float x, float4 w4, float3 w3, float3x3 m3, P ps, P ps2, int[3] arr, int[3] arr2"
O_ARGS = {"a": 2, "x": 1.5, "w4": [1.0, 2.0, 3.0, 4.0], "w3": [1.0, 2.0, 3.0], "m3": [[1.0, 2.0, 3.0], [4.0, 5.0, 6.0], [7.0, 8.0, 9.5]],
          "ps": {"fa": 3, "hb": 1.5}, "ps2": {"fa": 4, "hb": 2.5}, "arr": [5, 6, 7], "arr2": [8, 9, 10]}

# consumers: name -> (applicable types, statement template using {v} (the loaded variable), result expression, result type)
O_CONSUMERS = [
    ("ret", ("int", "float", "float4", "float3", "float3x3"), "", "{v}", None),
    ("bin-lhs", ("int", "float"), "", "{v} + 1", None),
    ("bin-rhs", ("int", "float"), "", "1 + {v}", None),
    ("bin-both", ("int", "float"), "", "{v} * {v}", None),
    ("cast", ("int",), "", "{v} + 0.5", "float"),
    ("cmp", ("int", "float"), "", "{v} > 1", "int"),
    ("if", ("int", "float"), "int res = 0; if ({v}) {{ res = 1; }} else {{ res = 2; }}", "res", "int"),
    ("if-noelse", ("int",), "int res = 5; if ({v}) {{ res = 1; }}", "res", "int"),
    ("if-directly-after-store", ("int", "float"), "if ({v}) {{ x = x + 1.0; }}", "x", "float"),
    ("if-else-directly-after-store", ("int",), "if ({v}) {{ x = x + 1.0; }} else {{ x = x - 1.0; }}", "x", "float"),
    ("while-directly-after-store", ("int",), "while ({v} > 0) {{ {v} = {v} - 1; x = x + 1.0; }}", "x", "float"),
    ("store", ("int", "float", "float4", "float3x3"), "{T} res = {v};", "res", None),
    ("assign", ("int", "float", "float4", "float3x3"), "{T} res; res = {v};", "res", None),
    ("compound", ("int", "float"), "{v} += 3;", "{v}", None),
    ("affix-pre", ("int", "float"), "++{v};", "{v}", None),
    ("affix-post-operand", ("int",), "int res = {v}++ * 2;", "res + {v}", None),
    ("call-arg0", ("int",), "", "g2({v}, 1)", None),
    ("call-arg1", ("int",), "", "g2(1, {v})", None),
    ("call-arg0f", ("float",), "", "g2({v}, 1.0)", None),
    ("call-arg1f", ("float",), "", "g2(1.0, {v})", None),
    ("call-arg-conv", ("int",), "", "gf1({v})", "float"),
    ("call-vec", ("float4",), "", "gv({v})", "float"),
    ("member-store", ("int",), "P s; s.fa = {v};", "s.fa", "int"),
    ("array-store", ("int",), "int[3] la; la[1] = {v};", "la[1]", "int"),
    ("array-index", ("int",), "int[3] la; la[0] = 7; la[1] = 8; la[2] = 9;", "la[{v} - {v}]", "int"),
    ("vector-elem-store", ("float",), "float4 q4 = w4; q4[1] = {v};", "q4", "float4"),
    ("matrix-row-store", ("float3",), "float3x3 q = m3; q[1] = {v};", "q", "float3x3"),
    ("ctor-arg0", ("float",), "", "float4({v}, 1.0, 2.0, 3.0)", "float4"),
    ("ctor-arg2", ("float",), "", "float4(1.0, 2.0, {v}, 3.0)", "float4"),
    ("ctor-vec", ("float3",), "", "float4({v}, 1.0)", "float4"),
    ("vec-bin-lhs", ("float4", "float3"), "", "{v} + {v}", None),
    ("vec-scalar", ("float4", "float3"), "", "{v} * 2.0", None),
    ("swizzle-read", ("float4", "float3"), "", "{v}.zy", "float2"),
    ("swizzle-read1", ("float4",), "", "{v}.y + 1.0", "float"),
    ("swizzle-write", ("float4", "float3"), "{v}.x = 9.0;", "{v}", None),
    ("swizzle-write2", ("float4",), "{v}.zx = float2(8.0, 9.0);", "{v}", None),
    ("vec-index-read", ("float4", "float3"), "", "{v}[1]", "float"),
    ("vec-index-write", ("float4", "float3"), "{v}[2] = 7.0;", "{v}", None),
    ("mat-scalar", ("float3x3",), "", "{v} * 2.0", None),
    ("mat-add", ("float3x3",), "", "{v} + m3", None),
    ("mat-mul", ("float3x3",), "", "{v} * m3", None),
    ("mat-row-read", ("float3x3",), "", "{v}[1]", "float3"),
    ("mat-elem-read", ("float3x3",), "", "{v}[1][2]", "float"),
    ("mat-row-write", ("float3x3",), "{v}[1] = w3;", "{v}", None),
    ("mat-elem-write", ("float3x3",), "{v}[2][0] = 5.0;", "{v}", None),
    ("field-read", ("P",), "", "{v}.fa", "int"),
    ("field-read-f", ("P",), "", "{v}.hb + 1.0", "float"),
    ("field-write", ("P",), "{v}.fa = 9;", "{v}.fa + 1", "int"),
    ("struct-store", ("P",), "", "gp({v})", "int"),
    ("alias-source-read-after-field-write", ("P",), "{v}.fa = 9;", "ps.fa * 100 + ps2.fa * 10 + {v}.fa", "int"),
    ("alias-source-read-after-elem-write", ("int[3]",), "{v}[1] = 9;", "arr[1] * 100 + arr2[1] * 10 + {v}[1]", "int"),
    ("alias-source-read-after-dyn-elem-write", ("int[3]",), "{v}[a - a] = 9;", "arr[0] * 100 + arr2[0] * 10 + {v}[0]", "int"),
    ("elem-read", ("int[3]",), "", "{v}[1]", "int"),
    ("elem-read-dyn", ("int[3]",), "", "{v}[a]", "int"),
    ("elem-write", ("int[3]",), "{v}[1] = 9;", "{v}[1] + {v}[0]", "int"),
    ("array-arg", ("int[3]",), "", "ga({v})", "int"),
]

O_HELPERS = """struct P
{
    int fa;
    float hb;
}
function g2(int p, int q) -> int { return p * 10 + q; }
function g2(float p, float q) -> float { return p * 10.0 + q; }
function gv(float4 p) -> float { return p[0] + p[3]; }
function gf1(float p) -> float { return p * 0.5; }
function gp(P p) -> int { return p.fa + 1; }
function ga(int[3] p) -> int { return p[0] + p[2]; }
"""


def _declares(stmt):
    import re
    return re.search(r"(^|[;{] *)(int|float|float4|float3|float3x3|P|int\[3\]) [a-z]", stmt) is not None


def o_case(tname, scope, cname, stmt_t, res_t, rtype, chain, place):
    T, e1, e2 = O_TYPES[tname]
    names = ["v", "u", "z"][:chain]
    decl_g, decl_l, params = "", "", O_PARAMS
    for n in names:
        if scope == "global":
            decl_g += f"{T} {n};\n"
        elif scope == "local":
            decl_l += f"    {T} {n};\n"
        else:
            params += f", {T} {n}"
    last = names[-1]

    def pair(e):
        s = f"{names[0]} = {e}; "
        for p, q in zip(names, names[1:]):
            s += f"{q} = {p}; "
        return s

    stmt = stmt_t.format(v=last, T=T)
    res = res_t.format(v=last)
    RT = rtype or T
    zero = {"int": "0", "float": "0.0"}
    body = pair(e1) + stmt
    if place == "straight":
        code = f"    {body}\n    return {res};\n"
    elif place == "after-branch":
        code = f"    int q0 = 0;\n    if (a > 0) {{ q0 = 1; }}\n    {body}\n    return {res};\n"
    elif place == "in-block":
        code = f"    {{ {pair(e1)} }}\n    {stmt}\n    return {res};\n"
    elif place == "loop":
        code = f"    for (int k = 0; k < 2; ++k) {{ {body} x = x + 1.0; }}\n    return {res};\n"
        if _declares(stmt):
            return None  # result declared inside the loop body would be out of scope
    elif place == "arms":
        if _declares(stmt):
            return None
        code = f"    if (a > 0) {{ {body} }} else {{ {pair(e2)}{stmt} }}\n    return {res};\n"
    else:
        raise ValueError(place)
    src = O_HELPERS + decl_g + f"export function f({params}) -> {RT}\n{{\n{decl_l}{code}}}\n"
    args = dict(O_ARGS)
    globs = {}
    init = {"int": 1, "float": 0.5, "float4": [0.5, 0.5, 0.5, 0.5], "float3": [0.5, 0.5, 0.5], "float3x3": [[0.5] * 3, [1.5] * 3, [2.5] * 3],
            "P": {"fa": 1, "hb": 0.5}, "int[3]": [1, 2, 3]}
    import copy
    for n in names:
        if scope == "global":
            globs[n] = copy.deepcopy(init[tname])
        elif scope == "arg":
            args[n] = copy.deepcopy(init[tname])
    inputs = []
    for a in (2, 0, -1):
        aa = copy.deepcopy(args)
        aa["a"] = a
        inputs.append((aa, copy.deepcopy(globs)))
    return {"fam": "O", "desc": f"consumer={cname};type={tname};scope={scope};chain={chain};place={place}", "src": src,
            "units": [{"funcs": [], "entry": "f", "inputs": inputs}]}


@family("O")
def fam_O(tier):
    for cname, types_, stmt_t, res_t, rtype in O_CONSUMERS:
        for tname in types_:
            for scope in ("local", "arg", "global"):
                for chain in (1, 2, 3):
                    for place in ("straight", "after-branch", "in-block", "loop", "arms"):
                        if tier == "quick" and chain == 3 and place not in ("straight", "loop"):
                            continue
                        c = o_case(tname, scope, cname, stmt_t, res_t, rtype, chain, place)
                        if c is not None:
                            yield c


# constant-cast grid: literal of type {int,float} through every implicit-cast site
@family("K")
def fam_K(tier):
    sites = [
        ("bin-int-lit-float-var", "float", "x + 2"), ("bin-float-var-int-lit", "float", "2 + x"), ("bin-lit-lit", "float", "2 + 0.5"),
        ("bin-int-zero", "float", "x * 0"), ("bin-neg-lit", "float", "x + -3"), ("cmp-lit", "int", "x > 1"), ("div-lits", "float", "7 / 2.0"),
        ("int-div-lits", "int", "7 / 2"), ("call-int-lit-to-float", "float", "gf(2)"), ("call-float-lit-to-int", "int", "gi(2.0)"),
        ("call-float-lit-to-int-frac", "int", "gi(2.5)"), ("ctor-int-lits", "float4", "float4(1, 2, 3, 4)"), ("ctor-mixed", "float4", "float4(1, 2.5, a, x)"),
        ("ctor-int-from-float-lit", "int2", "int2(1.0, 2)"), ("index-float-lit", "int", "arr[1.0]"), ("index-int-lit", "int", "arr[1]"),
        ("same-value-both-types", "float", "x * 1 + 1.0"), ("same-value-both-types-2", "float", "(a + 1) * 1.0"), ("init-float-with-int", "float", "fi"),
        ("vec-scalar-int-lit", "float4", "w4 * 2"), ("vec-div-int-lit", "float4", "w4 / 2"), ("mat-scalar-int-lit", "float3x3", "m3 * 2"),
        ("folded-cast-indexes-in-callee", "int", "gidx(1.0)"), ("int-ctor-of-float-literal-as-index", "int", "arr[int(2.0)]"),
        ("int-ctor-local-as-index", "int", "arr[ik]"), ("float-ctor-of-int-literal", "float", "float(3) / 2"), ("folded-cast-in-vector-index", "float", "w4[gone(1.0)]"),
        ("folded-cast-in-int-division", "int", "7 / gone(2.0)"), ("call-result-as-index", "int", "arr[gone(1.0)]"), ("binary-index-mixed", "int", "arr[a - 1]"),
        ("large-int-lit", "float", "x + 16777217"), ("hex-lit", "float", "x + 0x10"), ("oct-lit", "float", "x + 010"),
        # casts of casts: a literal narrowed explicitly and widened again by its context (the narrowing must survive folding)
        ("narrowed-literal-in-float-product", "float", "int(2.7) * x"), ("uint-narrowed-literal-in-float-division", "float", "x + uint(7.9) / x"),
        ("narrowed-literal-in-float-comparison", "int", "x < int(2.5)"), ("narrowed-literal-as-float-argument", "float", "gf(int(2.7))"),
        ("narrowed-literal-in-float-ctor", "float4", "float4(int(2.7), x, uint(3.9), 1)"), ("widened-then-narrowed", "int", "int(float(7) / 2) + a"),
        ("narrowed-twice", "float", "x * int(float(int(5.5)) + 0.75)"), ("narrowed-negative-context", "float", "x - int(1.5)"),
        ("narrowed-vector-literal", "float2", "float2(int2(2.7, 3.9)) * x"), ("narrowed-literal-as-index-then-float", "float", "arr[int(1.9)] * x"),
    ]
    for name, rt, expr in sites:
        src = (f"function gf(float p) -> float {{ return p * 2.0; }}\nfunction gi(int p) -> int {{ return p * 2; }}\n"
               f"function gone(int p) -> int {{ return p; }}\nfunction gidx(int p) -> int {{ int[3] t; t[0] = 5; t[1] = 6; t[2] = 7; return t[p]; }}\n"
               f"export function f(int a, float x, float4 w4, float3x3 m3, int[3] arr) -> {rt}\n{{\n    float fi = 3;\n    int ik = int(2.0);\n    return {expr};\n}}\n")
        args = {"a": 2, "x": 1.5, "w4": [1.0, 2.0, 3.0, 4.0], "m3": [[1.0, 2.0, 3.0], [4.0, 5.0, 6.0], [7.0, 8.0, 9.5]], "arr": [5, 6, 7]}
        yield {"fam": "K", "desc": f"site={name}", "src": src, "units": [{"funcs": [], "entry": "f", "inputs": [(args, {})]}]}


# =============================================================================================
# F: break/continue at every leaf position of statement trees (C11)
# =============================================================================================
def flow_skeletons(n, allow_block=True):
    """Like stmt_skeletons but break/continue may appear anywhere; plus 'we' = `while (c);`."""
    if n == 1:
        for leaf in ("A", "B", "C", "R", "we"):
            yield (leaf,)
        return
    for body in flow_skeletons(n - 1):
        yield ("if", body)
        for kind in ("for", "while", "do"):
            yield (kind, body)
    for a in range(1, n - 1):
        for s1 in flow_skeletons(a):
            for s2 in flow_skeletons(n - 1 - a):
                yield ("ifelse", s1, s2)
    if allow_block:
        for parts in compositions(n, 2, 3):
            for kids in itertools.product(*[list(flow_skeletons(p, False)) for p in parts]):
                yield ("seq",) + kids


def bc_positions(sk, in_loop=False):
    """-> (number of break/continue leaves, number of those outside any loop)"""
    k = sk[0]
    if k in ("B", "C"):
        return 1, 0 if in_loop else 1
    tot = out = 0
    for kid in sk[1:]:
        if isinstance(kid, tuple):
            a, b = bc_positions(kid, in_loop or k in ("for", "while", "do"))
            tot += a
            out += b
    return tot, out


def _ends_in_open_if(st):
    k = st[0]
    if k == "if":
        return True if st[3] is None else _ends_in_open_if(st[3])
    if k == "for":
        return _ends_in_open_if(st[4])
    if k == "while":
        return st[2][0] != "empty" and _ends_in_open_if(st[2])
    return False        # blocks, do-while (body always braced), simple statements


class _FlowBuild(_Build):
    def __init__(self, variant, unbraced, header="full"):
        super().__init__(variant)
        self.unbraced = unbraced
        self.header = header

    def wrap(self, stmts):
        if self.unbraced and len(stmts) == 1 and stmts[0][0] not in ("decl",):
            return stmts[0]
        return ("block", stmts)

    def build(self, sk, counters):
        k = sk[0]
        if k == "we":
            self.feat.add("while-empty")
            return [("while", ("bin", "<", ("var", "a"), lit(-9)), ("empty",))]
        if k == "if":
            c = self.cond(counters)
            return [("if", c, self.wrap(self.build(sk[1], counters)), None)]
        if k == "ifelse":
            c = self.cond(counters)
            self.feat.add("else")
            t = self.build(sk[1], counters)
            # a then-branch that ENDS in an else-less if - directly, or at the end of unbraced loop / else bodies - must be braced,
            # or the else would attach to that inner if (dangling else, R1)
            tw = ("block", t) if (len(t) == 1 and _ends_in_open_if(self.wrap(t))) else self.wrap(t)
            return [("if", c, tw, self.wrap(self.build(sk[2], counters)))]
        if k == "for":
            self.loops += 1
            n = self.loops
            self.feat.add("for")
            if counters:
                self.feat.add("nested")
            cn = f"i{n}"
            body = self.build(sk[1], counters + [cn])
            init, cond, nxt = ("decl", "int", cn, lit(0)), ("bin", "<", ("var", cn), lit(2 if counters else 3)), ("pre", "++", cn)
            if self.header == "full":
                return [("for", init, cond, nxt, self.wrap(body))]
            self.feat.add("for-" + self.header)
            if self.header == "no-next":     # the counter moves first thing in the body, so that a continue cannot skip it
                return [("for", ("decl", "int", cn, lit(-1)), ("bin", "<", ("var", cn), lit(1 if counters else 2)), None, ("block", [("expr", nxt)] + body))]
            if self.header == "no-cond":
                return [("for", init, None, nxt, ("block", [("if", ("bin", ">=", ("var", cn), lit(2 if counters else 3)), ("break",), None)] + body))]
            if self.header == "no-init":
                return [("block", [init, ("for", None, cond, nxt, self.wrap(body))])]
            if self.header == "only-cond":
                return [("block", [("decl", "int", cn, lit(-1)), ("for", None, ("bin", "<", ("var", cn), lit(1 if counters else 2)), None, ("block", [("expr", nxt)] + body))])]
            raise ValueError(self.header)
        return super().build(sk, counters)


def f_case(sk, variant, unbraced, second=None, header="full"):
    b = _FlowBuild(variant, unbraced, header)
    body = [("decl", "int", "t", lit(1))] + b.build(sk, []) + [("ret", ("var", "t"))]
    funcs = [func("f", [("int", "a")], "int", body)]
    tot, out = bc_positions(sk)
    if second is not None:
        b2 = _FlowBuild(variant, unbraced)
        body2 = [("decl", "int", "t", lit(1))] + b2.build(second, []) + [("ret", ("var", "t"))]
        funcs.append(func("g", [("int", "a")], "int", body2))
        t2, o2 = bc_positions(second)
        tot, out = tot + t2, out + o2
    expect = "reject" if out else "accept"
    desc = ("outside-loop" if out else "inside-loop") + ";stmts=" + ",".join(sorted(b.feat)) + (";unbraced" if unbraced else "") + (";two-functions" if second else "")
    return {"fam": "F", "desc": desc, "expect": expect, "why": f"{out} of {tot} break/continue statements are outside every loop",
            "units": [{"funcs": funcs, "entry": "f", "inputs": [({"a": v}, {}) for v in (0, 2)]}]}


@family("F")
def fam_F(tier):
    top = 4 if tier == "quick" else 5
    for n in range(1, top + 1):
        for sk in flow_skeletons(n):
            tot, out = bc_positions(sk)
            if not (1 <= tot <= 2):
                continue
            for unbraced in (False, True):
                yield (f_case, sk, n % 3, unbraced)
    if tier == "thorough":
        for sk in flow_skeletons(6):
            tot, out = bc_positions(sk)
            if tot == 1 and _has(sk, ("for", "while", "do")) >= 2:
                yield (f_case, sk, 0, False)
    # for loops with parts of the header left out
    for n in range(2, (4 if tier == "quick" else 5) + 1):
        for sk in flow_skeletons(n):
            tot, out = bc_positions(sk)
            if not (1 <= tot <= 2) or not _has(sk, ("for",)):
                continue
            for header in ("no-next", "no-cond", "no-init", "only-cond"):
                yield (f_case, sk, n % 3, False, None, header)
    # a second function after one whose body ends inside a loop nest
    seconds = [("B",), ("C",), ("if", ("B",)), ("seq", ("A",), ("C",)), ("for", ("B",)), ("A",)]
    for n in (1, 2, 3):
        for sk in flow_skeletons(n):
            if _has(sk, ("for", "while", "do")) == 0 or bc_positions(sk)[0] > 1:
                continue
            for s2 in seconds:
                yield (f_case, sk, 0, False, s2)


# =============================================================================================
# N: scope skeletons x one additional declaration at every position x every name (C12)
# =============================================================================================
N_KINDS = ("block", "for", "while", "do", "if", "ifelse")


N_ACTIVE_KINDS = ["block", "for", "while", "do", "if", "ifelse"]


def scope_forest(nodes, depth):
    """All lists (0..2 statements) of scope-creating statements using exactly `nodes` scope nodes in total.
    A statement is (kind, body) or ('ifelse', then_body, else_body); a body is such a list."""
    if nodes == 0:
        yield []
        return
    if depth == 0:
        return
    # one statement
    for st in scope_stmt(nodes, depth):
        yield [st]
    # two sibling statements
    for a in range(1, nodes):
        for s1 in scope_stmt(a, depth):
            for s2 in scope_stmt(nodes - a, depth):
                yield [s1, s2]


def scope_stmt(nodes, depth):
    for kind in ("block", "for", "while", "do", "if"):
        if kind not in N_ACTIVE_KINDS:
            continue
        for body in scope_forest(nodes - 1, depth - 1):
            yield (kind, body)
    if nodes >= 2 and "ifelse" in N_ACTIVE_KINDS:
        for a in range(0, nodes - 1):
            for b1 in scope_forest(a, depth - 1):
                for b2 in scope_forest(nodes - 2 - a, depth - 1):
                    yield ("ifelse", b1, b2)


class _NBuild:
    """Builds the miniast of a scope skeleton; knows every declaration position."""

    def __init__(self, forest, extra_pos, extra_name, second_fn, extra_init=True):
        self.extra_init = extra_init
        self.k = 0              # running scope id
        self.pos = 0            # running position id
        self.extra_pos = extra_pos
        self.extra_name = extra_name
        self.names = []         # all declared names in order (for the name classes)
        self.npos = 0
        self.redecl = False
        self.forest = forest
        self.loops = 0

    # visibility oracle: stack of sets
    def declare(self, stack, name):
        if any(name in s for s in stack):
            self.redecl = True
        stack[-1].add(name)

    def atom(self, e):
        return ("expr", ("asg", "=", ("var", "t"), ("bin", "%", ("bin", "+", ("bin", "*", ("var", "t"), lit(31)), e), lit(MOD))))

    def slot(self, stack, out):
        """A statement position: the additional declaration goes here if selected."""
        if self.pos == self.extra_pos:
            self.declare(stack, self.extra_name)
            self.extra_here = True
            if self.extra_init == "array":
                # a declaration of another type: where a clash slips through, the two variables cannot share a slot unnoticed
                el = ("idx", ("var", self.extra_name), lit(1))
                out.append(("decl", ("arr", "int", (2,)), self.extra_name, None))
                out.append(("expr", ("asg", "=", el, lit(777))))
                out.append(self.atom(el))
                out.append(("expr", ("asg", "=", el, ("bin", "+", el, lit(5)))))
            else:
                out.append(("decl", "int", self.extra_name, lit(777) if self.extra_init else None))
                out.append(self.atom(("var", self.extra_name)))
                out.append(("expr", ("asg", "=", ("var", self.extra_name), ("bin", "+", ("var", self.extra_name), lit(5)))))
        self.pos += 1

    def body(self, forest, stack, visible):
        """Statements of one scope (the scope's own set is stack[-1]); visible = ordered visible locals."""
        out = []
        self.k += 1
        me = f"b{self.k}"
        self.extra_here = False
        self.slot(stack, out)
        self.declare(stack, me)
        self.names.append(me)
        out.append(("decl", "int", me, lit(self.k * 10)))
        out.append(("expr", ("asg", "=", ("var", me), ("bin", "+", ("var", me), lit(1)))))
        vis = visible + [me]
        self.slot(stack, out)
        mine = self.extra_here
        for st in forest:
            out += self.stmt(st, stack, vis)
            self.extra_here = False
            self.slot(stack, out)
            mine = mine or self.extra_here
        for v in vis:
            out.append(self.atom(("var", v)))
        if mine:
            # the additional variable is read once more at the end of its scope, after every nested scope has come and gone
            out.append(self.atom(("idx", ("var", self.extra_name), lit(1)) if self.extra_init == "array" else ("var", self.extra_name)))
        self.extra_here = False
        return out

    def scoped(self, forest, stack, visible, extra_names=()):
        stack.append(set(extra_names))
        try:
            return self.body(forest, stack, visible + list(extra_names))
        finally:
            stack.pop()

    def stmt(self, st, stack, visible):
        kind = st[0]
        if kind == "block":
            return [("block", self.scoped(st[1], stack, visible))]
        if kind == "if":
            stack.append(set())      # the if statement itself opens a scope (condition + branches)
            try:
                return [("if", ("bin", ">", ("var", "a"), lit(0)), ("block", self.scoped(st[1], stack, visible)), None)]
            finally:
                stack.pop()
        if kind == "ifelse":
            stack.append(set())
            try:
                th = ("block", self.scoped(st[1], stack, visible))
                el = ("block", self.scoped(st[2], stack, visible))
                return [("if", ("bin", ">", ("var", "a"), lit(0)), th, el)]
            finally:
                stack.pop()
        self.loops += 1
        n = self.loops
        if kind == "for":
            h = f"h{n}"
            self.names.append(h)
            stack.append(set())
            try:
                self.declare(stack, h)
                body = ("block", self.scoped(st[1], stack, visible + [h]))
                return [("for", ("decl", "int", h, lit(0)), ("bin", "<", ("var", h), lit(2)), ("pre", "++", h), body)]
            finally:
                stack.pop()
        # while / do: the loop counter is declared in the enclosing scope just before the loop
        c = f"w{n}"
        self.names.append(c)
        self.declare(stack, c)
        inc = ("expr", ("asg", "=", ("var", c), ("bin", "+", ("var", c), lit(1))))
        stack.append(set())          # the loop statement's own scope
        try:
            inner = self.scoped(st[1], stack, visible + [c])
        finally:
            stack.pop()
        if kind == "while":
            return [("decl", "int", c, lit(0)), ("while", ("bin", "<", ("var", c), lit(2)), ("block", [inc] + inner))]
        return [("decl", "int", c, lit(0)), ("do", ("block", [inc] + inner), ("bin", "<", ("var", c), lit(2)))]


def n_build(forest, extra_pos, extra_name, two_fn, extra_init=True):
    b = _NBuild(forest, extra_pos, extra_name, two_fn, extra_init)
    stack = [{"g0"}, {"a", "p0"}]        # globals, parameters of f
    body = [("decl", "int", "t", lit(1))]
    stack[-1].add("t")
    stack.append(set())                  # function body block
    body += b.body(forest, stack, ["p0"])
    body.append(("ret", ("bin", "+", ("var", "t"), ("var", "g0"))))
    funcs = [func("f", [("int", "a"), ("int", "p0")], "int", body)]
    if two_fn:
        funcs.insert(0, func("g", [("int", "q0")], "int", [("decl", "int", "lq", lit(3)), ("ret", ("bin", "+", ("var", "q0"), ("var", "lq")))], export=False))
    return b, funcs


def n_case(forest, extra_pos, extra_name, two_fn, extra_init=True):
    b, funcs = n_build(forest, extra_pos, extra_name, two_fn, extra_init)
    expect = "reject" if b.redecl else "accept"
    structs = [("SS", [("int", "fld")])]
    cls = _name_class(extra_name, b)
    return {"fam": "N", "desc": f"{'redeclaration' if b.redecl else 'no-redeclaration'};name={cls}" + {True: "", False: ";without-initialiser", "array": ";as-array"}[extra_init], "expect": expect,
            "why": f"additional declaration of '{extra_name}' at position {extra_pos}",
            "prog": {"structs": structs, "globals": [("int", "g0")]},
            "units": [{"funcs": funcs, "entry": "f", "inputs": [({"a": v, "p0": 5}, {"g0": 100}) for v in (0, 1)]}]}


def _name_class(name, b):
    if name is None:
        return "none"
    if name in ("p0", "a"):
        return "parameter"
    if name == "g0":
        return "global"
    if name == "t":
        return "function-level-local"
    if name == "fld":
        return "struct-field"
    if name in ("q0", "lq"):
        return "other-function"
    if name == "zz":
        return "fresh"
    return {"b": "block-variable", "h": "for-header-variable", "w": "loop-counter"}[name[0]]


def n_positions_and_names(forest, two_fn):
    b, _ = n_build(forest, -1, None, two_fn)
    return b.pos, list(b.names)


@family("N")
def fam_N(tier):
    maxnodes = 3 if tier == "quick" else 4
    for nodes in range(0, maxnodes + 1):
        # quick: the largest size only over {block, for, if/else}; thorough: all six kinds at every size
        N_ACTIVE_KINDS[:] = ["block", "for", "ifelse"] if (tier == "quick" and nodes == 3) else list(N_KINDS)
        forests = list(scope_forest(nodes, 3))
        N_ACTIVE_KINDS[:] = list(N_KINDS)
        for forest in forests:
            npos, names = n_positions_and_names(forest, False)
            yield (n_case, forest, -1, None, False)          # the skeleton itself (must be accepted)
            cands = ["p0", "g0", "t", "fld", "zz"] + names
            for pos in range(npos):
                for nm in cands:
                    yield (n_case, forest, pos, nm, False)
                    if nm not in ("p0", "g0", "t", "fld"):
                        # the same declaration without initialiser: where it is accepted it must start at zero, even if a
                        # sibling scope used the name before
                        yield (n_case, forest, pos, nm, False, False)
                        if nm != "zz":
                            yield (n_case, forest, pos, nm, False, "array")
            if nodes <= 2:
                for pos in range(npos):
                    for nm in ("q0", "lq"):
                        yield (n_case, forest, pos, nm, True)
    yield from n_unbraced_cases()
    yield from n_cross_function_cases()
    # use of a name after its scope closed must be rejected; struct fields / other function's names are not variables
    for src, expect, desc in N_EXTRA:
        yield {"fam": "N", "desc": desc, "expect": expect, "src": src, "why": desc, "units": [{"funcs": [], "entry": "f", "inputs": []}]}


def n_unbraced_cases():
    """A declaration standing alone as the unbraced body of if / else / while / for: the body is a scope of its own."""
    X = lambda v: ("decl", "int", "x", lit(v))
    gt = lambda k: B(">", V("a"), lit(k))
    use = ASG(V("a"), B("+", V("a"), V("x")))
    loop_for = lambda body: ("for", ("decl", "int", "i", lit(0)), B("<", V("i"), lit(2)), ("pre", "++", "i"), body)
    cases = [
        ("if-then-use-after", [("if", gt(0), X(5), None), ("ret", V("x"))], "reject"),
        ("else-then-use-after", [("if", gt(0), ASG(V("a"), lit(1)), X(6)), ("ret", V("x"))], "reject"),
        ("while-then-use-after", [("while", B("<", V("a"), lit(0)), X(1)), ("ret", V("x"))], "reject"),
        ("for-then-use-after", [loop_for(X(3)), ("ret", V("x"))], "reject"),
        ("both-branches-declare", [("if", gt(0), X(5), X(6)), ("ret", V("a"))], "accept"),
        ("then-unbraced-else-braced", [("if", gt(0), X(5), ("block", [X(6), use])), ("ret", V("a"))], "accept"),
        ("declared-again-after-the-if", [("if", gt(0), X(5), None), X(7), ("ret", B("+", V("x"), V("a")))], "accept"),
        ("two-ifs-declare", [("if", gt(0), X(5), None), ("if", gt(1), X(6), None), ("ret", V("a"))], "accept"),
        ("if-then-while-declare", [("if", gt(0), X(5), None), ("while", B("<", V("a"), lit(0)), X(6)), loop_for(X(7)), ("ret", V("a"))], "accept"),
        ("outer-variable-redeclared-in-branch", [X(1), ("if", gt(0), X(5), None), ("ret", V("x"))], "reject"),
        ("outer-variable-redeclared-in-else", [X(1), ("if", gt(0), use, X(5)), ("ret", V("x"))], "reject"),
        ("outer-variable-redeclared-in-while", [X(1), ("while", B("<", V("a"), lit(0)), X(5)), ("ret", V("x"))], "reject"),
        ("parameter-redeclared-in-while", [("while", B("<", V("a"), lit(0)), ("decl", "int", "a", lit(5))), ("ret", V("a"))], "reject"),
        ("for-header-variable-redeclared-in-unbraced-body", [loop_for(("decl", "int", "i", lit(3))), ("ret", V("a"))], "reject"),
        ("global-redeclared-in-branch", [("if", gt(0), ("decl", "int", "g0", lit(5)), None), ("ret", V("a"))], "reject"),
        ("nested-unbraced-ifs-declare", [("if", gt(0), ("if", gt(1), X(5), X(6)), X(7)), ("ret", V("a"))], "accept"),
    ]
    for name, body, expect in cases:
        f = func("f", [("int", "a")], "int", body)
        yield {"fam": "N", "desc": f"unbraced-declaration;{name}", "expect": expect, "why": name, "prog": {"globals": [("int", "g0")]},
               "units": [{"funcs": [f], "entry": "f", "inputs": [({"a": v}, {"g0": 100}) for v in (0, 1, 3)]}]}


def n_cross_function_cases():
    """Names are per function: a parameter / local / loop variable may be named like a parameter / local / loop variable of ANOTHER
    function of the module, declared before or after it; every function keeps its own."""
    kinds = {
        "param": lambda nm: ([("int", nm)], [], V(nm)),
        "local": lambda nm: ([("int", "u0")], [("decl", "int", nm, B("+", V("u0"), lit(1)))], V(nm)),
        "block-local": lambda nm: ([("int", "u0")], [("decl", "int", "r0", lit(0)), ("block", [("decl", "int", nm, B("+", V("u0"), lit(2))), ASG(V("r0"), V(nm))])], V("r0")),
        "for-header": lambda nm: ([("int", "u0")], [("decl", "int", "r0", V("u0")), ("for", ("decl", "int", nm, lit(0)), B("<", V(nm), lit(3)), ("pre", "++", nm), ("block", [ASG(V("r0"), B("+", V("r0"), V(nm)))]))], V("r0")),
    }
    for k1 in kinds:
        for k2 in kinds:
            for order in ("helper-first", "helper-last"):
                p1, b1, r1 = kinds[k1]("nm")
                p2, b2, r2 = kinds[k2]("nm")
                helper = func("hlp", p1, "int", b1 + [("ret", B("*", r1, lit(10)))], export=False)
                arg = V("a")
                f = func("f", [("int", "a")] + [q for q in p2 if q[1] != "a"], "int", b2 + [("ret", B("+", B("*", r2, lit(1000)), ("call", "hlp", [arg])))])
                funcs = [helper, f] if order == "helper-first" else [f, helper]
                args = {"a": 3}
                for t_, n_ in f["params"]:
                    args.setdefault(n_, 5)
                yield {"fam": "N", "desc": f"same-name-in-two-functions;{k1}-and-{k2};{order}", "expect": "accept", "why": "names of different functions do not meet",
                       "units": [{"funcs": funcs, "entry": "f", "inputs": [(args, {})]}]}


N_EXTRA = [
    ("export function f(int a) -> int { { int v = 1; } return v; }", "reject", "use-after-block-closed"),
    ("export function f(int a) -> int { for (int i = 0; i < 2; ++i) { a = a + 1; } return i; }", "reject", "use-of-for-header-variable-after-loop"),
    ("export function f(int a) -> int { if (a > 0) { int v = 1; } else { a = v; } return a; }", "reject", "use-in-else-of-then-variable"),
    ("export function f(int a) -> int { while (a < 0) { int v = 1; } return v; }", "reject", "use-after-while-body"),
    ("export function f(int a) -> int { a = v; int v = 1; return a; }", "reject", "use-before-declaration"),
    ("function g(int q) -> int { int w = 2; return q + w; }\nexport function f(int a) -> int { return q; }", "reject", "use-of-other-functions-parameter"),
    ("function g(int q) -> int { int w = 2; return q + w; }\nexport function f(int a) -> int { return w; }", "reject", "use-of-other-functions-local"),
    ("struct SS { int fld; }\nexport function f(int a) -> int { return fld; }", "reject", "use-of-struct-field-as-variable"),
    ("struct SS { int fld; }\nint fld;\nexport function f(int a) -> int { return a; }", "accept", "global-named-like-a-struct-field"),
    ("struct SS { int fld; }\nstruct TT { int fld; }\nexport function f(int a) -> int { return a; }", "accept", "two-structs-with-the-same-field-name"),
    ("int g0;\nint g0;\nexport function f(int a) -> int { return a; }", "reject", "global-declared-twice"),
    ("export function f(int a, int a) -> int { return a; }", "reject", "parameter-declared-twice"),
    ("export function f(int a) -> int { int v = 1; int v = 2; return v; }", "reject", "same-block-twice"),
    ("export function f(int a) -> int { int late = a * 2; return late; }\nint late;", "reject", "local-named-like-global-declared-after-the-function"),
    ("export function f(int late) -> int { return late; }\nint late;", "reject", "parameter-named-like-global-declared-after-the-function"),
    ("export function f(int a) -> int { { for (int late = 0; late < 2; ++late) { a = a + 1; } } return a; }\nfloat late;", "reject", "for-header-variable-named-like-global-declared-after-the-function"),
    ("function g(int a) -> int { return a; }\nint late;\nexport function f(int a) -> int { int late = 1; return late; }", "reject", "local-named-like-global-declared-between-functions"),
    ("struct light { int k; }\nexport function f(int a) -> int { light light; light.k = a; return light.k; }", "accept", "local-named-like-its-struct-type"),
    ("struct sample { int k; }\nexport function f(int a) -> int { int sample = 3; return sample + a; }", "accept", "local-named-like-a-struct-type"),
    ("struct sample { int k; }\nexport function f(int sample) -> int { return sample; }", "accept", "parameter-named-like-a-struct-type"),
    ("struct inner { int k; }\nstruct outer { inner inner; int n; }\nexport function f(int a) -> int { outer o; o.inner.k = a; return o.inner.k; }", "accept", "field-named-like-its-struct-type"),
    ("struct sample { int k; }\nexport function f(int a) -> int { for (int sample = 0; sample < 2; ++sample) { a = a + 1; } return a; }", "accept", "for-header-variable-named-like-a-struct-type"),
    ("function g(int, int b) -> int { int b = 7; return b; }\nexport function f(int a) -> int { return g(a, a); }", "reject", "parameter-after-unnamed-parameter-redeclared"),
    ("function g(int, float, int b) -> int { { int b = 7; } return b; }\nexport function f(int a) -> int { return g(a, 1.5, a); }", "reject", "parameter-after-two-unnamed-parameters-redeclared-in-block"),
    ("function g(int b, int) -> int { for (int b = 0; b < 2; ++b) { } return b; }\nexport function f(int a) -> int { return g(a, a); }", "reject", "parameter-before-unnamed-parameter-redeclared-in-for"),
    ("function g(int, int b) -> int { int c = b + 1; return c; }\nexport function f(int a) -> int { return g(a, a); }", "accept", "unnamed-parameter-then-named-used"),
    ("export function f(int a) -> int { for (int i = 0; i < 2; ++i) { int i = 5; a = a + i; } return a; }", "reject", "body-redeclares-for-header-variable"),
    ("export function f(int a) -> int { for (int i = 0; i < 2; ++i) { a = a + 1; } for (int i = 0; i < 2; ++i) { a = a + 2; } return a; }", "accept", "sibling-for-loops-reuse-header-name"),
]


# =============================================================================================
# X: static checks on element selection (C13): constant bounds, index type, swizzle masks
# =============================================================================================
def _spell(v, base):
    if base == "dec":
        return str(v)
    if base == "hex":
        return hex(v)
    return "0" + oct(v)[2:] if v else "00"


def x_bounds_cases(tier):
    elems = [("int", "0"), ("float", "0.0")]
    dimsets = []
    for d in (1, 2, 3):
        for dims in itertools.product((1, 2, 3), repeat=d):
            if tier == "quick" and d == 3 and sorted(dims) not in ([1, 2, 3], [2, 2, 2], [1, 1, 3]):
                continue
            dimsets.append(dims)
    for et, zero in elems:
        for dims in dimsets:
            tdecl = et + "".join(f"[{n}]" for n in dims)
            for storage in ("global", "local"):
                for k in range(len(dims)):
                    for others in ("const", "dyn"):
                        if others == "dyn" and len(dims) == 1:
                            continue
                        for c in range(-2, dims[k] + 2):
                            for base in ("dec", "hex", "oct"):
                                if base != "dec" and (c < 0 or (tier == "quick" and c not in (dims[k] - 1, dims[k]))):
                                    continue
                                for rw in ("read", "write"):
                                    idx = []
                                    for j in range(len(dims)):
                                        idx.append(_spell(c, base) if j == k else ("0" if others == "const" else "i"))
                                    chain = "g" + "".join(f"[{x}]" for x in idx)
                                    ok = 0 <= c < dims[k]
                                    gdecl = f"{tdecl} g;\n" if storage == "global" else ""
                                    ldecl = f"{tdecl} g; " if storage == "local" else ""
                                    if rw == "read":
                                        body = f"{ldecl}return {chain};"
                                    else:
                                        body = f"{ldecl}{chain} = {zero}; return {zero};"
                                    src = f"{gdecl}export function f(int i) -> {et} {{ {body} }}\n"
                                    yield {"fam": "X", "expect": "accept" if ok else "reject", "src": src,
                                           "desc": f"bounds;array;dims={len(dims)};pos={k};{'in' if ok else ('below' if c < 0 else 'above')}-range;{rw}",
                                           "why": f"constant {c} at dimension {k} of {tdecl}", "units": [{"funcs": [], "entry": "f", "inputs": []}]}
                # partial chains (fewer indices than dimensions), as an expression statement
                if len(dims) >= 2:
                    for k in range(len(dims) - 1):
                        for c in range(-1, dims[k] + 2):
                            idx = ["0"] * k + [str(c)]
                            chain = "g" + "".join(f"[{x}]" for x in idx)
                            ok = 0 <= c < dims[k]
                            src = f"{tdecl} g;\nexport function f(int i) -> int {{ {chain}; return 0; }}\n"
                            yield {"fam": "X", "expect": "accept" if ok else "reject", "src": src,
                                   "desc": f"bounds;array-partial-chain;dims={len(dims)};pos={k};{'in' if ok else ('below' if c < 0 else 'above')}-range;read",
                                   "why": f"constant {c} at dimension {k} of {tdecl} (partial chain)", "units": [{"funcs": [], "entry": "f", "inputs": []}]}
    # vectors and matrices
    for ct in ("float", "int", "uint"):
        for n in (2, 3, 4):
            for c in range(-2, n + 2):
                for rw in ("read", "write"):
                    ok = 0 <= c < n
                    body = f"return v[{c}];" if rw == "read" else f"v[{c}] = 1; return v[0];"
                    src = f"export function f({ct}{n} v, int i) -> {ct} {{ {body} }}\n"
                    yield {"fam": "X", "expect": "accept" if ok else "reject", "src": src,
                           "desc": f"bounds;vector;{'in' if ok else ('below' if c < 0 else 'above')}-range;{rw}", "why": f"component {c} of {ct}{n}",
                           "units": [{"funcs": [], "entry": "f", "inputs": []}]}
    for n in (3, 4):
        for pos in ("row", "col"):
            for c in range(-2, n + 2):
                for rw in ("read", "write"):
                    for other in ("0", "i"):
                        ok = 0 <= c < n
                        chain = f"m[{c}][{other}]" if pos == "row" else f"m[{other}][{c}]"
                        body = f"return {chain};" if rw == "read" else f"{chain} = 1.0; return m[0][0];"
                        src = f"export function f(float{n}x{n} m, int i) -> float {{ {body} }}\n"
                        yield {"fam": "X", "expect": "accept" if ok else "reject", "src": src,
                               "desc": f"bounds;matrix-{pos};{'in' if ok else ('below' if c < 0 else 'above')}-range;{rw}", "why": f"{pos} {c} of float{n}x{n}",
                               "units": [{"funcs": [], "entry": "f", "inputs": []}]}
            for c in range(-2, n + 2):
                ok = 0 <= c < n
                src = f"export function f(float{n}x{n} m, int i) -> float{n} {{ return m[{c}]; }}\n"
                yield {"fam": "X", "expect": "accept" if ok else "reject", "src": src, "desc": f"bounds;matrix-row-vector;{'in' if ok else ('below' if c < 0 else 'above')}-range;read",
                       "why": f"row {c} of float{n}x{n}", "units": [{"funcs": [], "entry": "f", "inputs": []}]}


def x_huge_constant_cases(tier):
    """Constants far outside any dimension - around the 32-bit edges and beyond - in every spelling, on an array, a vector, a matrix."""
    consts = [2 ** 31 - 1, 2 ** 31, 2 ** 32 - 1, 2 ** 32, 2 ** 32 + 1, 2 ** 32 + 2, 2 ** 33 + 1, 2 ** 64, 2 ** 64 + 1, 10 ** 12, -(2 ** 31), -(2 ** 31) - 1, -(2 ** 32), -(2 ** 32) + 1, -(2 ** 32) - 1]
    targets = [("array", "int[4] g;\n", "g[{c}]", "int", "0"), ("array2-inner", "int[2][3] g;\n", "g[1][{c}]", "int", "0"), ("array2-outer", "int[2][3] g;\n", "g[{c}][1]", "int", "0"),
               ("vector", "float4 g;\n", "g[{c}]", "float", "0.0"), ("matrix-row", "float3x3 g;\n", "g[{c}][0]", "float", "0.0"), ("matrix-col", "float3x3 g;\n", "g[0][{c}]", "float", "0.0")]
    for c in consts:
        spellings = [("dec", str(c))] + ([("hex", hex(c)), ("oct", "0" + oct(c)[2:])] if c >= 0 else [])
        for base, text in spellings:
            for name, decl, chain, et, zero in targets:
                for rw in ("read", "write"):
                    ch = chain.format(c=text)
                    body = f"return {ch};" if rw == "read" else f"{ch} = {zero}; return {zero};"
                    yield {"fam": "X", "expect": "reject", "src": decl + f"export function f(int i) -> {et} {{ {body} }}\n",
                           "desc": f"bounds;huge-constant;{name};{'negative' if c < 0 else 'positive'};{base};{rw}", "why": f"constant {text} is outside every dimension",
                           "units": [{"funcs": [], "entry": "f", "inputs": []}]}


def x_nested_bounds_cases(tier):
    """Index chains that run THROUGH an array into its vector / matrix elements, through a struct field, through an array of
    structs: every position of the chain gets every constant around its range, the other positions are 0 or dynamic."""
    structs = "struct XS { int[3] fa; float4 fv; float3x3 fm; float2[2] fav; }\n"
    # (name, declaration type, prefix written before the chain, sizes per index position, (infix after position k) , element zero, storages)
    shapes = [
        ("array-of-vector", "float3[2]", "g", [2, 3], {}, ("global", "local")),
        ("array2-of-vector", "float2[2][2]", "g", [2, 2, 2], {}, ("global", "local")),
        ("array-of-int-vector", "int4[3]", "g", [3, 4], {}, ("global", "local")),
        ("array-of-matrix", "float3x3[2]", "g", [2, 3, 3], {}, ("global", "local")),
        ("array-of-matrix4", "float4x4[1]", "g", [1, 4, 4], {}, ("global",)),
        ("struct-array-field", "XS", "g.fa", [3], {}, ("global", "local")),
        ("struct-vector-field", "XS", "g.fv", [4], {}, ("global", "local")),
        ("struct-matrix-field", "XS", "g.fm", [3, 3], {}, ("global", "local")),
        ("struct-array-of-vector-field", "XS", "g.fav", [2, 2], {}, ("global", "local")),
        ("array-of-struct-array-field", "XS[2]", "g", [2, 3], {0: ".fa"}, ("global",)),
        ("array-of-struct-matrix-field", "XS[2]", "g", [2, 3, 3], {0: ".fm"}, ("global",)),
        ("array-of-struct-vector-field", "XS[3]", "g", [3, 4], {0: ".fv"}, ("global",)),
    ]
    for name, tdecl, prefix, sizes, infix, storages in shapes:
        et = "int" if ("int" in tdecl or ".fa" in prefix or infix.get(0) == ".fa") and "fav" not in prefix else "float"
        zero = "0" if et == "int" else "0.0"
        for storage in storages:
            for k in range(len(sizes)):
                for others in ("const", "dyn"):
                    if others == "dyn" and len(sizes) == 1:
                        continue
                    for c in (-2, -1, 0, sizes[k] - 1, sizes[k], sizes[k] + 1, 7):
                        for rw in ("read", "write"):
                            chain = prefix
                            for j in range(len(sizes)):
                                chain += "[" + (str(c) if j == k else ("0" if others == "const" else "i")) + "]" + infix.get(j, "")
                            ok = 0 <= c < sizes[k]
                            gdecl = f"{tdecl} g;\n" if storage == "global" else ""
                            ldecl = f"{tdecl} g; " if storage == "local" else ""
                            body = f"{ldecl}return {chain};" if rw == "read" else f"{ldecl}{chain} = {zero}; return {zero};"
                            src = structs + f"{gdecl}export function f(int i) -> {et} {{ {body} }}\n"
                            yield {"fam": "X", "expect": "accept" if ok else "reject", "src": src,
                                   "desc": f"bounds;{name};pos={k}of{len(sizes)};{others};{'in' if ok else ('below' if c < 0 else 'above')}-range;{rw};{storage}",
                                   "why": f"constant {c} at position {k} of {chain} ({tdecl})", "units": [{"funcs": [], "entry": "f", "inputs": []}]}


def x_indextype_cases(tier):
    exprs = [("int-literal", "1", True), ("int-var", "i", True), ("uint-var", "u", True), ("int-expr", "i + 1", True), ("uint-expr", "u + u", True),
             ("float-literal", "1.0", False), ("float-var", "x", False), ("float-expr", "i * 0.5", False), ("int2-var", "w", False),
             ("struct-var", "s", False), ("comparison", "i < 2", True), ("int-div", "i / 2", True), ("mixed-sum", "i + x", False)]
    targets = [("array1", "int[3] g;", "g[{e}]", "int"), ("array2-outer", "int[3][3] g;", "g[{e}][0]", "int"), ("array2-inner", "int[3][3] g;", "g[0][{e}]", "int"),
               ("vector", "", "v[{e}]", "float"), ("matrix-row", "", "m[{e}][0]", "float"), ("matrix-col", "", "m[0][{e}]", "float")]
    for tn, gdecl, tmpl, rt in targets:
        for en, e, ok in exprs:
            for rw in ("read", "write"):
                chain = tmpl.format(e=e)
                body = f"return {chain};" if rw == "read" else f"{chain} = 1; return 0;"
                if rw == "write" and rt == "float":
                    body = f"{chain} = 1.0; return 0.0;"
                src = f"struct SS {{ int fld; }}\n{gdecl}\nexport function f(int i, uint u, float x, int2 w, SS s, float4 v, float4x4 m) -> {rt} {{ {body} }}\n"
                yield {"fam": "X", "expect": "accept" if ok else "reject", "src": src, "desc": f"index-type;{tn};{en};{rw}",
                       "why": f"index expression '{e}'", "units": [{"funcs": [], "entry": "f", "inputs": []}]}


def mask_ok(mask, n):
    sets = ("xyzw", "rgba")
    for st in sets:
        if all(c in st for c in mask):
            return all(st.index(c) < n for c in mask)
    return False


def x_mask_cases(tier):
    maxlen = 3 if tier == "quick" else 4
    letters = "xyzwrgba"
    for n in (2, 3, 4):
        for L in range(1, maxlen + 1):
            for tup in itertools.product(letters, repeat=L):
                mask = "".join(tup)
                ok = mask_ok(mask, n)
                rt = "float" if L == 1 else f"float{L}"
                src = f"export function f(float{n} v) -> {rt} {{ return v.{mask}; }}\n"
                cls = "valid" if ok else ("mixed-sets" if (any(c in "xyzw" for c in mask) and any(c in "rgba" for c in mask)) else "component-beyond-size")
                yield {"fam": "X", "expect": "accept" if ok else "reject", "src": src, "desc": f"swizzle;read;{cls};len={L}", "why": f"mask {mask} on float{n}",
                       "units": [{"funcs": [], "entry": "f", "inputs": []}]}
                if len(set(mask)) == L:
                    val = "1.0" if L == 1 else f"float{L}(" + ", ".join(f"{k}.0" for k in range(1, L + 1)) + ")"
                    src = f"export function f(float{n} v) -> float{n} {{ v.{mask} = {val}; return v; }}\n"
                    yield {"fam": "X", "expect": "accept" if ok else "reject", "src": src, "desc": f"swizzle;write;{cls};len={L}", "why": f"write mask {mask} on float{n}",
                           "units": [{"funcs": [], "entry": "f", "inputs": []}]}
        for foreign in "qsuXi":
            for mask in [foreign] + [foreign + c for c in "xr"] + [c + foreign for c in "xr"]:
                rt = "float" if len(mask) == 1 else "float2"
                src = f"export function f(float{n} v) -> {rt} {{ return v.{mask}; }}\n"
                yield {"fam": "X", "expect": "reject", "src": src, "desc": f"swizzle;read;foreign-letter;len={len(mask)}", "why": f"mask {mask} on float{n}",
                       "units": [{"funcs": [], "entry": "f", "inputs": []}]}
    for ct in ("int", "uint"):
        for mask, n in (("x", 2), ("yx", 2), ("z", 2), ("xyzw", 4), ("wzyx", 4), ("w", 3), ("rgb", 3), ("rgba", 3), ("xg", 4)):
            ok = mask_ok(mask, n)
            rt = ct if len(mask) == 1 else f"{ct}{len(mask)}"
            src = f"export function f({ct}{n} v) -> {rt} {{ return v.{mask}; }}\n"
            yield {"fam": "X", "expect": "accept" if ok else "reject", "src": src, "desc": f"swizzle;read;{ct};{'valid' if ok else 'invalid'}", "why": f"mask {mask} on {ct}{n}",
                   "units": [{"funcs": [], "entry": "f", "inputs": []}]}


def x_two_swizzle_cases(tier):
    """Several swizzles in ONE program: it is rejected as soon as one of them is invalid, wherever the others stand."""
    good = ["x", "yx", "rg", "y"]
    bad = ["xg", "z", "rb", "q", "xyz"]          # on a float2: mixed sets, component beyond the size, foreign letter, too long
    forms = {
        "two-statements": "float2 a = float2(v.{m1}, 1.0); return a.x + v.{m2};",
        "one-expression": "return v.{m1} + v.{m2};",
        "write-then-read": "v.{m1} = v.{m2}; return v.x;",
        "chained": "return v.{m1}.{m2};",
        "in-call-and-return": "float t = h(v.{m1}); return t + v.{m2};",
        "three": "float t = v.{m1}; float u = v.x; return t + u + v.{m2};",
    }
    scal = lambda m: m if len(m) == 1 else m + ".x"
    for fname, tmpl in forms.items():
        for m1 in good + bad:
            for m2 in good + bad:
                if fname == "write-then-read":
                    if len(m1) != len(m2) or len(set(m1)) != len(m1):
                        continue
                    a1, a2 = m1, m2
                elif fname == "chained":
                    a1, a2 = m1, "x"
                    if m2 not in ("x", "y", "z"):
                        continue
                    a2 = m2
                    if m1 in good and len(m1) == 1:
                        continue          # swizzle of a scalar: not this family's subject
                else:
                    a1, a2 = scal(m1), scal(m2)
                ok = m1 in good and m2 in good
                if fname == "chained":
                    ok = m1 in good and "xyzw".index(m2) < len(m1)
                src = "function h(float p) -> float { return p; }\nexport function f(float2 v) -> float { " + tmpl.format(m1=a1, m2=a2) + " }\n"
                yield {"fam": "X", "expect": "accept" if ok else "reject", "src": src,
                       "desc": f"swizzle;several;{fname};{'valid' if m1 in good else 'invalid'}-then-{'valid' if m2 in good else 'invalid'}", "why": f"masks {m1}, {m2} on float2",
                       "units": [{"funcs": [], "entry": "f", "inputs": []}]}


def x_module_level_cases(tier):
    """The static checks also apply to expressions outside functions: initialisers of module-level variables."""
    for name, src, expect in (
            ("swizzle-beyond-size-in-global-initialiser", "float2 g;\nfloat y = g.z;\nexport function f(int a) -> int { return a; }\n", "reject"),
            ("mixed-swizzle-in-global-initialiser", "float4 g;\nfloat2 y = g.xg;\nexport function f(int a) -> int { return a; }\n", "reject"),
            ("valid-swizzle-in-global-initialiser", "float4 g;\nfloat2 y = g.xy;\nexport function f(int a) -> int { return a; }\n", "accept"),
            ("index-above-range-in-global-initialiser", "int[3] g;\nint y = g[3];\nexport function f(int a) -> int { return a; }\n", "reject"),
            ("index-in-range-in-global-initialiser", "int[3] g;\nint y = g[2];\nexport function f(int a) -> int { return a; }\n", "accept"),
            ("float-index-in-global-initialiser", "int[3] g;\nfloat k;\nint y = g[k];\nexport function f(int a) -> int { return a; }\n", "reject"),
            ("vector-index-above-range-in-global-initialiser", "float3 g;\nfloat y = g[3];\nexport function f(int a) -> int { return a; }\n", "reject")):
        yield {"fam": "X", "expect": expect, "src": src, "desc": f"module-level;{name}", "why": name, "units": [{"funcs": [], "entry": "f", "inputs": []}]}


def x_spelling_cases(tier):
    """Index constants whose SPELLING could be mistaken: hexadecimal numbers ending in f / F, in e / E, with l / u look-alikes."""
    for text, val in (("0xf", 15), ("0xF", 15), ("0x1f", 31), ("0x1F", 31), ("0x2f", 47), ("0x3F", 63), ("0x0f", 15), ("0x1e", 30), ("0x2E", 46), ("0xfe", 254), ("0x10", 16), ("0x01", 1), ("0x02", 2),
                      ("0x00f", 15), ("0x1", 1), ("0x3", 3), ("0xb", 11), ("0x1b", 27), ("0x2d", 45), ("01", 1), ("07", 7), ("010", 8), ("03", 3)):
        for name, decl, chain, size, et, zero in (("array", "int[4] g;\n", "g[{c}]", 4, "int", "0"), ("array2", "int[2][3] g;\n", "g[{c}][0]", 2, "int", "0"), ("array2-inner", "int[2][3] g;\n", "g[1][{c}]", 3, "int", "0"),
                                                  ("vector", "float4 g;\n", "g[{c}]", 4, "float", "0.0"), ("matrix-col", "float3x3 g;\n", "g[0][{c}]", 3, "float", "0.0")):
            ok = 0 <= val < size
            for rw in ("read", "write"):
                ch = chain.format(c=text)
                body = f"return {ch};" if rw == "read" else f"{ch} = {zero}; return {zero};"
                yield {"fam": "X", "expect": "accept" if ok else "reject", "src": decl + f"export function f(int i) -> {et} {{ {body} }}\n",
                       "desc": f"bounds;spelling;{name};{'in' if ok else 'above'}-range;{'hex-ends-in-f' if text.lower().endswith('f') else 'hex' if 'x' in text else 'octal'};{rw}", "why": f"constant {text} = {val}",
                       "units": [{"funcs": [], "entry": "f", "inputs": []}]}


@family("X")
def fam_X(tier):
    yield from x_two_swizzle_cases(tier)
    yield from x_module_level_cases(tier)
    yield from x_spelling_cases(tier)
    yield from x_bounds_cases(tier)
    yield from x_nested_bounds_cases(tier)
    yield from x_huge_constant_cases(tier)
    yield from x_indextype_cases(tier)
    yield from x_mask_cases(tier)


# =============================================================================================
# C: calls - by-value arguments, isolated frames, chosen overload (C03)
# =============================================================================================
F4 = ("vec", "float", 4)
I4 = ("vec", "int", 4)
F3 = ("vec", "float", 3)
M3 = ("mat", "float", 3, 3)
F2 = ("vec", "float", 2)
I2 = ("vec", "int", 2)
C_TYPES = {"int": "int", "float": "float", "int4": I4, "float4": F4, "float3x3": M3}


def CTOR(t, *args):
    return ("ctor", t, list(args))


def c_values(tn):
    return {"int": (5, -3), "float": (1.5, 4.0), "int4": ([1, 2, 3, 4], [10, 20, 30, 40]), "float4": ([1.0, 2.0, 3.0, 4.0], [0.5, 1.5, 2.5, 3.5]),
            "float3x3": ([[1.0, 2.0, 3.0], [4.0, 5.0, 6.0], [7.0, 8.0, 9.0]], [[0.5, 0.0, 0.0], [0.0, 1.5, 0.0], [0.0, 0.0, 2.5]])}[tn]


def c_actions(tn):
    """(name, statements acting on the callee's parameter p)"""
    T = C_TYPES[tn]
    sc = tn in ("int", "float")
    one = lit(1.0) if tn == "float" else lit(1)
    nine = lit(9.0) if "float" in tn else lit(9)
    acts = [("nothing", [])]
    if sc:
        acts += [("assign", [ASG(V("p"), B("+", V("p"), lit(100)))]), ("compound", [ASG(V("p"), one, "+=")]), ("pre-inc", [("expr", ("pre", "++", "p"))]),
                 ("post-dec", [("expr", ("post", "--", "p"))])]
    elif tn in ("int4", "float4"):
        acts += [("assign", [ASG(V("p"), B("+", V("p"), V("p")))]), ("index-write", [ASG(IDX(V("p"), 1), nine)]), ("index-write-dyn", [ASG(IDX(V("p"), V("k")), nine)]),
                 ("swizzle-write", [ASG(("swz", V("p"), "x"), nine)]), ("swizzle-write2", [ASG(("swz", V("p"), "wy"), CTOR(("vec", T[1], 2), nine, nine))]),
                 ("compound", [ASG(V("p"), lit(2.0) if tn == "float4" else lit(2), "*=")])]
    else:
        acts += [("assign", [ASG(V("p"), B("+", V("p"), V("p")))]), ("row-write", [ASG(IDX(V("p"), 1), CTOR(F3, lit(9.0), lit(8.0), lit(7.0)))]),
                 ("elem-write", [ASG(IDX(IDX(V("p"), 2), 0), lit(9.0))]), ("elem-write-dyn", [ASG(IDX(IDX(V("p"), V("k")), V("k")), lit(9.0))])]
    acts.append(("same-name-local", [("decl", T, "l1", None), ASG(V("l1"), V("p")), ("decl", "int", "sel", lit(77)), ASG(V("p"), V("l1"))]))
    return acts


def c_case(tn, shape, aname, action):
    T = C_TYPES[tn]
    g = func("g", [(T, "p"), ("int", "k")], T, list(action) + [("ret", V("p"))], export=False)
    helpers = [g]
    call = lambda a, k=1: ("call", "g", [a, lit(k)])
    pre, post = [], []
    if shape == "single":
        stm = [ASG(V("r"), call(V("l1")))]
    elif shape == "two-in-expression":
        stm = [ASG(V("r"), B("+", call(V("l1")), call(V("a2"), 2)))]
    elif shape == "nested":
        stm = [ASG(V("r"), call(call(V("l1")), 2))]
    elif shape == "operand-after-call":
        stm = [ASG(V("r"), B("+", call(V("l1")), V("l1")))]
    elif shape == "operand-before-call":
        stm = [ASG(V("r"), B("+", V("a1"), call(V("a1"))))]
    elif shape == "in-loop":
        stm = [("for", ("decl", "int", "it", lit(0)), B("<", V("it"), lit(2)), ("pre", "++", "it"), ("block", [ASG(V("r"), B("+", V("r"), call(V("l1")))), ASG(V("l2"), B("+", V("l2"), V("a1")))]))]
    elif shape == "exported-callee":
        helpers = [func("g", [(T, "p"), ("int", "k")], T, list(action) + [("ret", V("p"))], export=True)]
        stm = [ASG(V("r"), call(V("l1")))]
    elif shape == "recursion":
        rec = func("g", [(T, "p"), ("int", "k")], T,
                   [("decl", T, "q", V("p")), ("if", B(">", V("k"), lit(0)), ("block", list(action) + [ASG(V("q"), ("call", "g", [V("p"), B("-", V("k"), lit(1))]))]), None),
                    ("ret", B("+", V("p"), V("q")))], export=False)
        helpers = [rec]
        stm = [ASG(V("r"), ("call", "g", [V("l1"), lit(2)]))]
    elif shape in ("callee-more-params", "same-value-twice", "caller-params-passed-on", "callee-fewer-params"):
        if shape == "callee-more-params":
            g4 = func("g", [(T, "p"), (T, "q"), (T, "u"), ("int", "k"), (T, "w")], T, list(action) + [ASG(V("q"), V("p")), ASG(V("w"), V("q")), ("ret", B("+", B("+", V("p"), V("u")), V("w")))], export=False)
            helpers = [g4]
            stm = [ASG(V("r"), ("call", "g", [V("l1"), V("a2"), V("l2"), lit(1), V("a1")]))]
        elif shape == "same-value-twice":
            g2 = func("g", [(T, "p"), ("int", "k"), (T, "q")], T, list(action) + [("ret", B("+", V("p"), V("q")))], export=False)
            helpers = [g2]
            stm = [ASG(V("r"), ("call", "g", [V("l1"), lit(1), V("l1")]))]
        elif shape == "caller-params-passed-on":
            g2 = func("g", [(T, "p"), ("int", "k"), (T, "q")], T, list(action) + [ASG(V("q"), V("p")), ("ret", B("+", V("p"), V("q")))], export=False)
            helpers = [g2]
            stm = [ASG(V("r"), ("call", "g", [V("a2"), V("sel"), V("a1")]))]
        else:
            g1 = func("g", [(T, "p")], T, [("decl", "int", "k", lit(1))] + list(action) + [("ret", V("p"))], export=False)
            helpers = [g1]
            stm = [ASG(V("r"), B("+", ("call", "g", [V("l1")]), ("call", "g", [V("a2")])))]
    elif shape in ("recursion-local-kept", "recursion-temp-kept", "mutual-recursion-local-kept"):
        # the caller's own local (declared and set BEFORE the recursive call) and an expression temporary are read AFTER it
        keep = [("decl", T, "keep", B("+", V("p"), V("p"))), ("decl", "int", "kk", B("*", V("k"), lit(10)))]
        other = "h" if shape.startswith("mutual") else "g"
        if shape == "recursion-temp-kept":
            rec_body = keep + [("if", B(">", V("k"), lit(0)), ("block", list(action) + [("ret", B("+", V("keep"), ("call", other, [V("p"), B("-", V("k"), lit(1))])))]), None),
                               ("ret", V("keep"))]
        else:
            rec_body = keep + [("decl", T, "q", V("p")),
                               ("if", B(">", V("k"), lit(0)), ("block", list(action) + [ASG(V("q"), ("call", other, [V("p"), B("-", V("k"), lit(1))]))]), None),
                               ("if", B("==", V("kk"), B("*", V("k"), lit(10))), ("block", [("ret", B("+", V("keep"), V("q")))]), None),
                               ("ret", V("q"))]
        helpers = [func("g", [(T, "p"), ("int", "k")], T, rec_body, export=False)]
        if shape.startswith("mutual"):
            hb = func("h", [(T, "p"), ("int", "k")], T,
                      [("decl", T, "keep", B("-", V("p"), V("p"))), ("decl", T, "q", V("p")),
                       ("if", B(">", V("k"), lit(0)), ("block", [ASG(V("q"), ("call", "g", [V("p"), B("-", V("k"), lit(1))]))]), None),
                       ("ret", B("+", V("keep"), V("q")))], export=False)
            helpers.append(hb)
        stm = [ASG(V("r"), ("call", "g", [V("l1"), lit(3 if shape.startswith("mutual") else 2)]))]
    elif shape == "mutual-recursion":
        ga = func("g", [(T, "p"), ("int", "k")], T,
                  [("decl", T, "q", V("p")), ("if", B(">", V("k"), lit(0)), ("block", list(action) + [ASG(V("q"), ("call", "h", [V("p"), B("-", V("k"), lit(1))]))]), None),
                   ("ret", B("+", V("p"), V("q")))], export=False)
        hb = func("h", [(T, "p"), ("int", "k")], T,
                  [("decl", T, "q", V("p")), ("if", B(">", V("k"), lit(0)), ("block", [ASG(V("q"), ("call", "g", [V("p"), B("-", V("k"), lit(1))]))] + list(action)), None),
                   ("ret", B("-", V("q"), V("p")))], export=False)
        helpers = [ga, hb]
        stm = [ASG(V("r"), ("call", "g", [V("l1"), lit(3)]))]
    else:
        raise ValueError(shape)
    body = [("decl", T, "l1", B("+", V("a1"), V("a2"))), ("decl", T, "l2", V("a2")), ("decl", T, "r", V("a1"))] + stm
    locs = [V("r"), V("a1"), V("a2"), V("l1"), V("l2")]
    body += [("if", B("==", V("sel"), lit(n)), ("block", [("ret", lv)]), None) for n, lv in enumerate(locs)]
    body.append(("ret", V("r")))
    f = func("f", [("int", "sel"), (T, "a1"), (T, "a2")], T, body)
    v1, v2 = c_values(tn)
    inputs = [({"sel": s, "a1": v1, "a2": v2}, {}) for s in range(len(locs))]
    return {"fam": "C", "desc": f"shape={shape};type={tn};callee={aname}", "prog": {"funcs": helpers},
            "units": [{"funcs": [f], "entry": "f", "inputs": inputs}]}


def c_overload_case(pair, which, mutate):
    """Overloaded callee selected by the static argument type; each overload tags its result and mutates its parameter."""
    (ta, tb) = pair
    names = {"int": "int", "float": "float", "float2": F2, "float4": F4, "int2": I2}
    Ta, Tb = names[ta], names[tb]

    def ov(T, tag):
        body = []
        if mutate:
            if isinstance(T, str):
                body.append(ASG(V("p"), B("+", V("p"), lit(50))))
            else:
                body.append(ASG(IDX(V("p"), 0), lit(50.0) if T[1] == "float" else lit(50)))
        first = V("p") if isinstance(T, str) else IDX(V("p"), 0)
        body.append(("ret", B("+", B("*", first, lit(0)), lit(tag))))
        return func("ov", [(T, "p")], "int" if (isinstance(T, str) and T == "int") or (not isinstance(T, str) and T[1] == "int") else "float", body, export=False)
    helpers = [ov(Ta, 1), ov(Tb, 2)]
    T = names[which]
    rt = helpers[0]["ret"] if which == ta else helpers[1]["ret"]
    body = [("decl", rt, "r", ("call", "ov", [V("a1")])),
            ("if", B("==", V("sel"), lit(0)), ("block", [("ret", V("r"))]), None)]
    first = V("a1") if isinstance(T, str) else IDX(V("a1"), 0)
    body.append(("ret", B("+", B("*", V("r"), lit(0)), first)))
    f = func("f", [("int", "sel"), (T, "a1")], rt, body)
    val = {"int": 5, "float": 1.5, "float2": [1.5, 2.5], "float4": [1.5, 2.5, 3.5, 4.5], "int2": [3, 4]}[which]
    return {"fam": "C", "desc": f"shape=overload;pair={ta}/{tb};arg={which};mutate={int(mutate)}", "prog": {"funcs": helpers},
            "units": [{"funcs": [f], "entry": "f", "inputs": [({"sel": s, "a1": val}, {}) for s in (0, 1)]}]}


def c_later_param_case(which, val, tag):
    """Overloads that differ only in their LAST parameter; the first parameter is mutated by each."""
    names = {"int": "int", "float": "float", "float4": F4}
    helpers = []
    for t, k in (("int", 1), ("float", 2), ("float4", 3)):
        helpers.append(func("ov", [("int", "p"), ("int", "m"), (names[t], "q")], "int", [ASG(V("p"), B("+", V("p"), lit(100))), ("ret", B("+", B("*", V("p"), lit(10)), lit(k)))], export=False))
    T = names[which]
    body = [("decl", "int", "r", ("call", "ov", [V("a0"), lit(0), V("a1")])), ("if", B("==", V("sel"), lit(0)), ("block", [("ret", V("r"))]), None), ("ret", V("a0"))]
    f = func("f", [("int", "sel"), ("int", "a0"), (T, "a1")], "int", body)
    return {"fam": "C", "desc": f"shape=overload-later-parameter;arg={which}", "prog": {"funcs": helpers},
            "units": [{"funcs": [f], "entry": "f", "inputs": [({"sel": s_, "a0": 7, "a1": val}, {}) for s_ in (0, 1)]}]}


def c_literal_site_case(tn, how):
    """A call site whose arguments are all literals is executed several times; the callee writes to its parameters."""
    T = {"int": "int", "float": "float"}[tn]
    three, one = (lit(3), lit(1)) if tn == "int" else (lit(3.5), lit(1.0))
    drain = func("drain", [(T, "k"), (T, "m")], T, [ASG(V("k"), B("-", V("k"), one)), ASG(V("m"), B("+", V("m"), V("k"))), ("ret", B("+", B("*", V("k"), lit(10)), V("m")))], export=False)
    call = ("call", "drain", [three, one])
    if how == "loop":
        body = [("decl", T, "t", lit(0) if tn == "int" else lit(0.0)), ("for", ("decl", "int", "i", lit(0)), B("<", V("i"), lit(3)), ("pre", "++", "i"), ("block", [ASG(V("t"), B("+", B("*", V("t"), lit(2)), call))])), ("ret", V("t"))]
        extra = []
    elif how == "helper-called-twice":
        extra = [func("once", [("int", "z")], T, [("ret", call)], export=False)]
        body = [("ret", B("+", B("*", ("call", "once", [V("a")]), lit(3)), ("call", "once", [V("a")])))]
    elif how == "recursion":
        extra = [func("rec", [("int", "n")], T, [("if", B(">", V("n"), lit(0)), ("block", [("ret", B("+", call, ("call", "rec", [B("-", V("n"), lit(1))])))]), None), ("ret", call)], export=False)]
        body = [("ret", ("call", "rec", [lit(2)]))]
    else:
        raise ValueError(how)
    f = func("f", [("int", "a")], T, body)
    return {"fam": "C", "desc": f"shape=literal-arguments-site-runs-again;{how};type={tn}", "prog": {"funcs": [drain] + extra},
            "units": [{"funcs": [f], "entry": "f", "inputs": [({"a": 1}, {})]}]}


def c_recursion_aggregate_case(kind, mutual):
    """An aggregate local (array of arrays, struct with an array member, array of vectors ...) is filled before the recursive call
    and read after it: every activation has its own."""
    A22 = ("arr", "int", (2, 2))
    decl, cell = {
        "array2": (("decl", A22, "loc", None), lambda i, j: IDX(IDX(V("loc"), i), j)),
        "array3": (("decl", ("arr", "int", (2, 2, 2)), "loc", None), lambda i, j: IDX(IDX(IDX(V("loc"), i), j), 1)),
        "struct-with-array": (("decl", ("struct", "RA"), "loc", None), lambda i, j: IDX(FLD(V("loc"), "cells"), B("+", B("*", lit(i), lit(2)), lit(j)) if False else (i * 2 + j))),
        "struct-with-struct": (("decl", ("struct", "RB"), "loc", None), lambda i, j: FLD(FLD(V("loc"), "in" + str(i)), "c" + str(j))),
        "array-of-vectors": (("decl", ("arr", VT("int", 2), (2,)), "loc", None), lambda i, j: IDX(IDX(V("loc"), i), j)),
        "array1": (("decl", ("arr", "int", (4,)), "loc", None), lambda i, j: IDX(V("loc"), i * 2 + j)),
    }[kind]
    fill = [ASG(cell(i, j), B("+", B("*", V("n"), lit(10)), lit(i * 2 + j))) for i in (0, 1) for j in (0, 1)]
    digest = functools.reduce(lambda a, b: B("+", a, b), [cell(i, j) for i in (0, 1) for j in (0, 1)])
    other = "hrec" if mutual else "rec"
    body = [decl] + fill + [("decl", "int", "sub", lit(0)), ("if", B(">", V("n"), lit(0)), ("block", [ASG(V("sub"), ("call", other, [B("-", V("n"), lit(1))]))]), None),
                            ("ret", B("+", B("*", V("sub"), lit(100)), digest))]
    helpers = [func("rec", [("int", "n")], "int", body, export=False)]
    if mutual:
        helpers.append(func("hrec", [("int", "n")], "int", [("ret", B("+", ("call", "rec", [V("n")]), lit(1)))], export=False))
    f = func("f", [("int", "a")], "int", [("ret", ("call", "rec", [V("a")]))])
    structs = [("RA", [(("arr", "int", (4,)), "cells"), ("int", "k")]), ("RC", [("int", "c0"), ("int", "c1")]), ("RB", [(("struct", "RC"), "in0"), (("struct", "RC"), "in1")])]
    return {"fam": "C", "desc": f"shape=recursion-aggregate-local-kept;local={kind};{'mutual' if mutual else 'direct'}", "prog": {"funcs": helpers, "structs": structs},
            "units": [{"funcs": [f], "entry": "f", "inputs": [({"a": v}, {}) for v in (0, 1, 2)]}]}


def c_arity_overload_case(which):
    """Overloads of one name with DIFFERENT parameter counts: the argument count selects, however cheaply a shorter or longer one
    would match a prefix of the arguments."""
    blend2 = func("blend", [("float", "u"), ("float", "w")], "float", [("ret", B("+", B("*", V("u"), lit(100.0)), V("w")))], export=False)
    blend3 = func("blend", [("float", "u"), ("float", "w"), ("float", "t")], "float", [("ret", B("+", B("+", B("*", V("u"), lit(1000.0)), B("*", V("w"), lit(10.0))), V("t")))], export=False)
    blend1 = func("blend", [("int", "u")], "float", [("ret", B("*", V("u"), lit(2.0)))], export=False)
    call = {"three-with-conversion": ("call", "blend", [V("x"), V("y"), lit(1)]), "three-exact": ("call", "blend", [V("x"), V("y"), V("x")]), "two-exact": ("call", "blend", [V("x"), V("y")]),
            "two-with-conversion": ("call", "blend", [V("a"), V("y")]), "one-exact": ("call", "blend", [V("a")]), "one-with-conversion": ("call", "blend", [V("x")]),
            "all-three-sites": B("+", B("+", ("call", "blend", [V("x"), V("y"), lit(1)]), ("call", "blend", [V("a"), V("y")])), ("call", "blend", [V("a")]))}[which]
    f = func("f", [("int", "a"), ("float", "x"), ("float", "y")], "float", [("ret", call)])
    out = []
    for order in ((blend1, blend2, blend3), (blend3, blend2, blend1), (blend2, blend3, blend1)):
        out.append(order)
    return [{"fam": "C", "desc": f"shape=overloads-of-different-arity;{which};declared={k}", "prog": {"funcs": list(order)},
             "units": [{"funcs": [f], "entry": "f", "inputs": [({"a": 3, "x": 6.0, "y": 2.0}, {})]}]} for k, order in enumerate(out)]


C_OVERLOAD_SETS = {
    "vectors": ["int2", "float2", "float3", "float4"], "matrices-and-vectors": ["float3x3", "float4x4", "float3", "float4"],
    "scalars-and-vectors": ["int", "float", "int2", "float2"], "aggregates": ["PS", "int[3]", "float3", "int"],
    "three-scalars": ["float", "uint", "int", "float2"],        # an int argument: two candidates one conversion away are declared before the exact one
}


def c_many_sites_case(setname, order):
    """One name, four overloads differing in the type class of their parameter only, and one module in which every overload is
    called from its own function (in the given order of call sites): each site has to reach the overload of ITS argument type."""
    ty = {"int": "int", "float": "float", "int2": VT("int", 2), "float2": VT("float", 2), "float3": VT("float", 3), "float4": VT("float", 4),
          "float3x3": ("mat", "float", 3, 3), "float4x4": ("mat", "float", 4, 4), "PS": ("struct", "PS"), "int[3]": ("arr", "int", (3,))}
    vals = {"int": 3, "float": 1.5, "int2": [1, 2], "float2": [1.5, 2.5], "float3": [1.5, 2.5, 3.5], "float4": [1.5, 2.5, 3.5, 4.5],
            "float3x3": mat_value(3, 1), "float4x4": [[1.0, 2.0, 3.0, 4.0]] * 4, "PS": {"fa": 1, "hb": 2.5}, "int[3]": [1, 2, 3], "uint": 4}
    ty["uint"] = "uint"
    names = C_OVERLOAD_SETS[setname]
    helpers = [func("pick", [(ty[t], "p")], "int", [("ret", lit(100 + k))], export=False) for k, t in enumerate(names)]
    sites = [names[i] for i in order]
    callers = [func(f"site{j}", [(ty[t], "a")], "int", [("ret", B("+", ("call", "pick", [V("a")]), lit(1000 * j)))], export=False) for j, t in enumerate(sites)]
    body = [("if", B("==", V("sel"), lit(j)), ("block", [("ret", ("call", f"site{j}", [V(f"a{j}")]))]), None) for j in range(4)]
    # the same four calls once more inside ONE function, in the opposite order
    body += [("if", B("==", V("sel"), lit(4 + j)), ("block", [("ret", ("call", "pick", [V(f"a{3 - j}")]))]), None) for j in range(4)]
    body.append(("ret", lit(-1)))
    f = func("f", [("int", "sel")] + [(ty[t], f"a{j}") for j, t in enumerate(sites)], "int", body)
    args = {f"a{j}": vals[t] for j, t in enumerate(sites)}
    return {"fam": "C", "desc": f"shape=many-call-sites;overloads={setname};site-order={''.join(map(str, order))}", "prog": {"funcs": helpers + callers, "structs": [("PS", [("int", "fa"), ("float", "hb")])]},
            "units": [{"funcs": [f], "entry": "f", "inputs": [(dict(args, sel=k), {}) for k in range(8)]}]}


def c_convert_case(kind):
    """Argument conversions at the call boundary (values where floor = trunc)."""
    if kind == "int-to-float":
        g = func("g", [("float", "p")], "float", [ASG(V("p"), B("/", V("p"), lit(2))), ("ret", V("p"))], export=False)
        f = func("f", [("int", "a1")], "float", [("decl", "float", "r", ("call", "g", [V("a1")])), ("ret", B("+", V("r"), V("a1")))])
        ins = [({"a1": v}, {}) for v in (3, -5, 0)]
    elif kind == "float-to-int":
        g = func("g", [("int", "p")], "int", [ASG(V("p"), B("/", V("p"), lit(2))), ("ret", V("p"))], export=False)
        f = func("f", [("float", "a1")], "float", [("decl", "int", "r", ("call", "g", [V("a1")])), ("ret", B("+", V("r"), V("a1")))])
        ins = [({"a1": v}, {}) for v in (7.0, -4.0, 0.0)]
    elif kind == "float-to-int-fraction":
        g = func("g", [("int", "p")], "int", [("ret", B("*", V("p"), lit(10)))], export=False)
        f = func("f", [("float", "a1")], "int", [("ret", ("call", "g", [V("a1")]))])
        ins = [({"a1": v}, {}) for v in (2.5, 0.75, 7.0)]
    elif kind == "float-vector-to-int-vector":
        g = func("g", [(I2, "p")], "int", [("ret", B("+", B("*", IDX(V("p"), 0), lit(10)), IDX(V("p"), 1)))], export=False)
        f = func("f", [(F2, "a1")], "int", [("ret", ("call", "g", [V("a1")]))])
        ins = [({"a1": v}, {}) for v in ([2.5, 3.5], [0.25, 7.0])]
    elif kind == "int-vector-to-float-vector":
        g = func("g", [(F2, "p")], "float", [("ret", B("/", IDX(V("p"), 0), IDX(V("p"), 1)))], export=False)
        f = func("f", [(I2, "a1")], "float", [("ret", ("call", "g", [V("a1")]))])
        ins = [({"a1": v}, {}) for v in ([7, 2], [1, 4])]
    elif kind.startswith("nested-"):
        # a converting call / constructor / operation that is itself an argument of a call or constructor
        hi = func("hi", [("int", "p")], "int", [("ret", B("*", V("p"), lit(10)))], export=False)
        hf = func("hf", [("float", "p")], "float", [("ret", B("/", V("p"), lit(4)))], export=False)
        g = func("g", [("int", "q")], "int", [("ret", B("+", V("q"), lit(1)))], export=False)
        gf = func("gf", [("float", "q")], "float", [("ret", B("/", V("q"), lit(2)))], export=False)
        body, rt = {
            "nested-call-in-call": ([("ret", ("call", "g", [("call", "hi", [V("a1")])]))], "int"),
            "nested-call-in-call-twice": ([("ret", ("call", "g", [("call", "hi", [("call", "hi", [V("a1")])])]))], "int"),
            "nested-int-call-in-float-call": ([("ret", ("call", "gf", [("call", "hi", [V("a1")])]))], "float"),
            "nested-call-in-second-argument": ([("ret", ("call", "two", [V("a1"), ("call", "hi", [V("a1")])]))], "float"),
            "nested-call-in-ctor": ([("ret", CTOR(I2, ("call", "hi", [V("a1")]), lit(1)))], I2),
            "nested-ctor-in-ctor": ([("ret", CTOR(F2, CTOR(I2, V("a1"), V("a1"))))], F2),
            "nested-ctor-in-call": ([("ret", ("call", "sum2", [CTOR(I2, V("a1"), B("+", V("a1"), lit(1.0)))]))], "int"),
            "nested-operation-in-call": ([("ret", ("call", "gf", [B("/", V("i1"), V("a1"))]))], "float"),
            "nested-int-operation-in-float-call": ([("ret", ("call", "gf", [B("/", V("i1"), lit(2))]))], "float"),
            "nested-operation-in-ctor": ([("ret", CTOR(F2, B("/", V("i1"), V("a1")), B("/", V("i1"), lit(2))))], F2),
            "nested-call-in-index": ([("decl", ("arr", "int", (3,)), "q", None), ASG(IDX(V("q"), 1), lit(4)), ("ret", IDX(V("q"), B("/", ("call", "hi", [V("a1")]), lit(20))))], "int"),
            "nested-call-in-condition": ([("if", B(">", ("call", "g", [("call", "hi", [V("a1")])]), lit(25)), ("block", [("ret", lit(1))]), None), ("ret", lit(2))], "int"),
        }[kind]
        two = func("two", [("float", "u"), ("float", "w")], "float", [("ret", B("+", B("*", V("u"), lit(100.0)), V("w")))], export=False)
        sum2 = func("sum2", [(I2, "v")], "int", [("ret", B("+", B("*", IDX(V("v"), 0), lit(10)), IDX(V("v"), 1)))], export=False)
        f = func("f", [("float", "a1"), ("int", "i1")], rt, body)
        return {"fam": "C", "desc": f"convert;{kind}", "prog": {"funcs": [hi, hf, g, gf, two, sum2]},
                "units": [{"funcs": [f], "entry": "f", "inputs": [({"a1": v, "i1": i}, {}) for v, i in ((2.75, 7), (0.5, 3), (7.0, 8))]}]}
    else:
        g = func("g", [("float", "p"), ("int", "q")], "float", [("ret", B("+", V("p"), V("q")))], export=False)
        f = func("f", [("int", "a1"), ("float", "a2")], "float", [("ret", ("call", "g", [V("a1"), V("a2")]))])
        ins = [({"a1": 3, "a2": 2.0}, {}), ({"a1": -1, "a2": 8.0}, {})]
    return {"fam": "C", "desc": f"shape=converting-call;kind={kind}", "prog": {"funcs": [g]}, "units": [{"funcs": [f], "entry": "f", "inputs": ins}]}


@family("C")
def fam_C(tier):
    shapes = ["single", "two-in-expression", "nested", "operand-after-call", "operand-before-call", "in-loop", "exported-callee", "recursion", "mutual-recursion",
              "recursion-local-kept", "recursion-temp-kept", "mutual-recursion-local-kept",
              "callee-more-params", "same-value-twice", "caller-params-passed-on", "callee-fewer-params"]
    for tn in C_TYPES:
        for shape in shapes:
            for aname, action in c_actions(tn):
                yield (c_case, tn, shape, aname, action)
            if tier == "thorough":
                acts = c_actions(tn)
                for (n1, a1), (n2, a2) in itertools.permutations(acts[1:-1], 2):
                    yield (c_case, tn, shape, n1 + "+" + n2, a1 + a2)
    for pair in (("int", "float"), ("float2", "float4"), ("int2", "float2")):
        for which in pair:
            for mutate in (False, True):
                yield (c_overload_case, pair, which, mutate)
    for which, val, tag in (("int", 5, 1), ("float", 1.5, 2), ("float4", [1.5, 2.5, 3.5, 4.5], 3)):
        yield (c_later_param_case, which, val, tag)
    for tn in ("int", "float"):
        for how in ("loop", "helper-called-twice", "recursion"):
            yield (c_literal_site_case, tn, how)
    for kind in ("array2", "array3", "struct-with-array", "struct-with-struct", "array-of-vectors", "array1"):
        for mutual in (False, True):
            yield (c_recursion_aggregate_case, kind, mutual)
    for which in ("three-with-conversion", "three-exact", "two-exact", "two-with-conversion", "one-exact", "one-with-conversion", "all-three-sites"):
        yield from c_arity_overload_case(which)
    for setname in C_OVERLOAD_SETS:
        for order in itertools.permutations(range(4)):
            if tier == "quick" and order[0] > order[-1] and setname != "vectors":
                continue
            yield (c_many_sites_case, setname, order)
    for kind in ("int-to-float", "float-to-int", "mixed-two-args", "float-to-int-fraction", "float-vector-to-int-vector", "int-vector-to-float-vector",
                 "nested-call-in-call", "nested-call-in-call-twice", "nested-int-call-in-float-call", "nested-call-in-second-argument", "nested-call-in-ctor", "nested-ctor-in-ctor",
                 "nested-ctor-in-call", "nested-operation-in-call", "nested-int-operation-in-float-call", "nested-operation-in-ctor", "nested-call-in-index", "nested-call-in-condition"):
        yield (c_convert_case, kind)


# =============================================================================================
# V: vectors and matrices are values (C04)
# =============================================================================================
def VT(c, n):
    return ("vec", c, n)


def vec_value(c, n, base=1):
    return [float(base + 2 * i) + 0.5 if c == "float" else base + 2 * i for i in range(n)]


def mat_value(n, base=1):
    return [[float(base + i * n + j) + (0.5 if (i + j) % 2 else 0.0) for j in range(n)] for i in range(n)]


def masks(n, maxlen, letters):
    for L in range(1, maxlen + 1):
        for tup in itertools.product(letters[:n], repeat=L):
            yield "".join(tup)


def _pack(fam, units, desc, mode="min", prog=None, size=24):
    for i in range(0, len(units), size):
        chunk = units[i:i + size]
        for j, u in enumerate(chunk):
            u = dict(u)
        yield {"fam": fam, "desc": desc, "units": chunk, "mode": mode, "prog": prog or {}}


def v_swizzle_read_units(tier):
    units = []
    for c in ("float", "int"):
        for n in (2, 3, 4):
            for letters in ("xyzw", "rgba"):
                if c == "int" and letters == "rgba" and tier == "quick":
                    continue
                for mask in masks(n, 4 if (tier == "thorough" or n <= 3) else 3, letters):
                    L = len(mask)
                    rt = c if L == 1 else VT(c, L)
                    name = f"f{len(units)}"
                    units.append({"funcs": [func(name, [(VT(c, n), "v")], rt, [("ret", ("swz", V("v"), mask))])], "entry": name,
                                  "inputs": [({"v": vec_value(c, n)}, {})], "desc": f"swizzle-read;len={L};{c};whole"})
                    if L <= 2:
                        name = f"f{len(units)}"
                        e = B("+", ("swz", V("v"), mask), ("swz", V("v"), mask[::-1]))
                        units.append({"funcs": [func(name, [(VT(c, n), "v")], rt, [("ret", e)])], "entry": name,
                                      "inputs": [({"v": vec_value(c, n)}, {})], "desc": f"swizzle-read;len={L};{c};operand"})
                    if L >= 2 and L <= 3 and letters == "xyzw" and c == "float":
                        for top in masks(L, 2, "xyzw"):
                            name = f"f{len(units)}"
                            rt2 = c if len(top) == 1 else VT(c, len(top))
                            units.append({"funcs": [func(name, [(VT(c, n), "v")], rt2, [("ret", ("swz", ("swz", V("v"), mask), top))])], "entry": name,
                                          "inputs": [({"v": vec_value(c, n)}, {})], "desc": f"swizzle-of-swizzle;{c}"})
    return units


def _perm_masks(n, letters):
    for L in range(1, n + 1):
        for tup in itertools.permutations(letters[:n], L):
            yield "".join(tup)


V_STRUCTS = [("SV", [(VT("float", 4), "vf"), ("float", "sc"), (("mat", "float", 3, 3), "mf")])]


def v_write_case(kind, c, n, mask, target):
    """Swizzle / index write on a target location; returns whole variables selected by sel."""
    T = VT(c, n)
    num = (lambda k: lit(float(k))) if c == "float" else (lambda k: lit(k))
    L = len(mask) if kind == "swizzle" else 1
    if kind == "swizzle":
        rhs = num(91) if L == 1 else CTOR(VT(c, L), *[num(91 + i) for i in range(L)])
    else:
        rhs = num(91)
    globals_ = [(T, "gv")]
    params = [("int", "sel"), ("int", "i"), (T, "pv"), (T, "other")]
    body = [("decl", T, "lv", V("other")), ("decl", T, "keep", V("other"))]
    if target == "local":
        base = V("lv")
    elif target == "param":
        base = V("pv")
    elif target == "global":
        base = V("gv")
    elif target == "array-elem":
        body += [("decl", ("arr", T, (2,)), "av", None), ASG(IDX(V("av"), 0), V("other")), ASG(IDX(V("av"), 1), V("pv"))]
        base = IDX(V("av"), 1)
    elif target == "array-elem-dyn":
        body += [("decl", ("arr", T, (2,)), "av", None), ASG(IDX(V("av"), 0), V("other")), ASG(IDX(V("av"), 1), V("pv"))]
        base = IDX(V("av"), V("i"))
    else:
        raise ValueError(target)
    if kind == "swizzle":
        lv = ("swz", base, mask)
    elif kind == "index":
        lv = IDX(base, mask)          # mask is a constant index here
    else:
        lv = IDX(base, V("i"))
    body.append(ASG(lv, rhs))
    locs = [V("lv"), V("pv"), V("gv"), V("keep"), V("other")]
    if target.startswith("array"):
        locs += [IDX(V("av"), 0), IDX(V("av"), 1)]
    body += [("if", B("==", V("sel"), lit(k)), ("block", [("ret", e)]), None) for k, e in enumerate(locs)]
    body.append(("ret", V("keep")))
    f = func("f", params, T, body)
    ivals = (0, 1) if (kind == "index-dyn" or target == "array-elem-dyn") else (1,)
    if kind == "index-dyn":
        ivals = tuple(range(n))
        if target == "array-elem-dyn":
            ivals = (0, 1)
    inputs = [({"sel": s, "i": i, "pv": vec_value(c, n, 1), "other": vec_value(c, n, 20)}, {"gv": vec_value(c, n, 40)}) for i in ivals for s in range(len(locs))]
    return {"fam": "V", "desc": f"{kind}-write;target={target};{c}{n};len={L}", "prog": {"globals": globals_},
            "units": [{"funcs": [f], "entry": "f", "inputs": inputs}]}


def v_struct_matrix_write_case(kind, mask):
    """Writes through struct fields and matrix rows (write-back chains)."""
    structs = V_STRUCTS
    M = ("mat", "float", 3, 3)
    params = [("int", "sel"), ("int", "i"), (M, "pm"), (VT("float", 4), "p4")]
    body = [("decl", ("struct", "SV"), "s", None), ASG(FLD(V("s"), "vf"), V("p4")), ASG(FLD(V("s"), "sc"), lit(3.5)), ASG(FLD(V("s"), "mf"), V("pm")),
            ("decl", M, "lm", V("pm")), ("decl", M, "keep", V("pm"))]
    L = len(mask)
    rhs = lit(91.0) if L == 1 else CTOR(VT("float", L), *[lit(91.0 + k) for k in range(L)])
    if kind == "field-swizzle":
        body.append(ASG(("swz", FLD(V("s"), "vf"), mask), rhs))
    elif kind == "field-index":
        body.append(ASG(IDX(FLD(V("s"), "vf"), 2), lit(91.0)))
    elif kind == "row-swizzle":
        body.append(ASG(("swz", IDX(V("lm"), 1), mask), rhs))
    elif kind == "row-swizzle-dyn":
        body.append(ASG(("swz", IDX(V("lm"), V("i")), mask), rhs))
    elif kind == "field-matrix-elem":
        body.append(ASG(IDX(IDX(FLD(V("s"), "mf"), 1), 2), lit(91.0)))
    elif kind == "field-matrix-row":
        body.append(ASG(IDX(FLD(V("s"), "mf"), 2), CTOR(VT("float", 3), lit(91.0), lit(92.0), lit(93.0))))
    elif kind == "global-matrix-elem":
        body.append(ASG(IDX(IDX(V("gm"), V("i")), 1), lit(91.0)))
    elif kind == "param-matrix-row":
        body.append(ASG(IDX(V("pm"), V("i")), CTOR(VT("float", 3), lit(91.0), lit(92.0), lit(93.0))))
    else:
        raise ValueError(kind)
    # read back: matrices by sel 0..3, struct vector by 4 (returned as a matrix row construct is not possible: separate exported readers)
    readers = [("lm", V("lm")), ("pm", V("pm")), ("keep", V("keep")), ("s.mf", FLD(V("s"), "mf")), ("gm", V("gm"))]
    body += [("if", B("==", V("sel"), lit(k)), ("block", [("ret", e)]), None) for k, (nm, e) in enumerate(readers)]
    # vector readers encoded into the first row of a matrix
    body.append(("ret", CTOR(M, ("swz", FLD(V("s"), "vf"), "xyz"), CTOR(VT("float", 3), ("swz", FLD(V("s"), "vf"), "w"), FLD(V("s"), "sc"), lit(0.0)), ("swz", V("p4"), "xyz"))))
    f = func("f", params, M, body)
    inputs = [({"sel": s, "i": i, "pm": mat_value(3, 1), "p4": vec_value("float", 4, 30)}, {"gm": mat_value(3, 50)}) for i in (0, 2) for s in range(len(readers) + 1)]
    return {"fam": "V", "desc": f"chain-write;{kind};len={L}", "prog": {"structs": structs, "globals": [(M, "gm")]},
            "units": [{"funcs": [f], "entry": "f", "inputs": inputs}]}


def v_misc_units(tier):
    """Index reads, operators, constructors - independent functions, packed."""
    units = []

    def add(params, rt, e, inputs, desc):
        name = f"f{len(units)}"
        units.append({"funcs": [func(name, params, rt, [("ret", e)])], "entry": name, "inputs": inputs, "desc": desc})

    for c in ("float", "int"):
        for n in (2, 3, 4):
            T = VT(c, n)
            a, b = vec_value(c, n, 1), vec_value(c, n, 30)
            b2 = list(b)
            b2[0] = a[0]
            for k in range(n):
                add([(T, "v")], c, IDX(V("v"), k), [({"v": a}, {})], f"index-read;const;{c}")
            add([(T, "v"), ("int", "i")], c, IDX(V("v"), V("i")), [({"v": a, "i": i}, {}) for i in range(n)], f"index-read;dyn;{c}")
            for op in ("+", "-"):
                add([(T, "v"), (T, "w")], T, B(op, V("v"), V("w")), [({"v": a, "w": b}, {})], f"vector{op}vector;{c}")
            for op in CMPOPS:
                add([(T, "v"), (T, "w")], VT("int", n), B(op, V("v"), V("w")), [({"v": a, "w": b2}, {}), ({"v": b2, "w": a}, {})], f"vector-compare;{c}")
            sc = 2.0 if c == "float" else 3
            add([(T, "v"), (c, "s")], T, B("*", V("v"), V("s")), [({"v": a, "s": sc}, {})], f"vector*scalar;{c}")
            add([(T, "v"), (c, "s")], T, B("*", V("s"), V("v")), [({"v": a, "s": sc}, {})], f"scalar*vector;{c}")
            add([(T, "v"), (c, "s")], T, B("/", V("v"), V("s")), [({"v": b, "s": sc}, {})], f"vector/scalar;{c}")
            # signs: every component behaves like the scalar operation (integer division truncates toward zero, % follows the dividend)
            sg = [-7, 6, -9, 7][:n] if c == "int" else [-7.0, 6.0, -9.0, 7.5][:n]
            for sv in ((2, -2, 4) if c == "int" else (2.0, -4.0)):
                add([(T, "v"), (c, "s")], T, B("/", V("v"), V("s")), [({"v": sg, "s": sv}, {})], f"vector/scalar;{c};signed")
                add([(T, "v"), (c, "s")], T, B("*", V("v"), V("s")), [({"v": sg, "s": sv}, {})], f"vector*scalar;{c};signed")
            add([(T, "v"), (T, "w")], T, B("-", V("v"), V("w")), [({"v": sg, "w": list(reversed(sg))}, {})], f"vector-vector;{c};signed")
            if c == "int":
                add([(T, "v"), (T, "w")], T, B("%", V("v"), V("w")), [({"v": sg, "w": [2, -4, 5, -3][:n]}, {})], "vector%vector;int;signed")
            if c == "int":
                add([(T, "v"), (T, "w")], T, B("%", V("w"), V("v")), [({"v": a, "w": b}, {})], "vector%vector;int")
            add([(T, "v"), (T, "w")], T, B("&&", V("v"), V("w")), [({"v": [0] + a[1:] if c == "int" else [0.0] + a[1:], "w": b}, {})], f"vector&&vector;{c}")
            add([(T, "v"), (T, "w")], T, B("||", V("v"), V("w")), [({"v": [0] * n if c == "int" else [0.0] * n, "w": [0] + b[1:] if c == "int" else [0.0] + b[1:]}, {})], f"vector||vector;{c}")
    M3_ = ("mat", "float", 3, 3)
    for sv in (3.0, 7.0, 10.0, 49.0):
        add([(M3_, "m"), ("float", "s")], M3_, B("/", V("m"), V("s")), [({"m": [[1.0, 2.0, 3.0], [7.0, 49.0, 5.0], [9.0, 10.0, 98.0]], "s": sv}, {})], "matrix/scalar;not-a-power-of-two")
        add([(VT("float", 3), "v"), ("float", "s")], VT("float", 3), B("/", V("v"), V("s")), [({"v": [1.0, 49.0, 10.0], "s": sv}, {})], "vector/scalar;not-a-power-of-two")
    for n_ in (2, 3):
        IV = VT("int", n_)
        vals = [2, 4, 7][:n_]
        for nm_, e_ in (("v*s/t", B("/", B("*", V("v"), V("s")), V("t"))), ("v/s*t", B("*", B("/", V("v"), V("s")), V("t"))), ("v*s*t", B("*", B("*", V("v"), V("s")), V("t"))),
                        ("s*v/t", B("/", B("*", V("s"), V("v")), V("t"))), ("v/s/t", B("/", B("/", V("v"), V("s")), V("t")))):
            add([(IV, "v"), ("int", "s"), ("int", "t")], IV, e_, [({"v": vals, "s": 3, "t": 2}, {}), ({"v": [-x for x in vals], "s": 3, "t": 2}, {})], f"int-vector-scaling-chain;{nm_}")
    # an element store followed by a swizzle of the same vector, and the other way round
    F4_ = VT("float", 4)
    for nm_, body_ in (("index-write-then-swizzle-read", [ASG(IDX(V("v"), 1), lit(55.0)), ("ret", CTOR(F4_, ("swz", V("v"), "yx"), ("swz", V("v"), "wz")))]),
                       ("index-write-then-swizzle-write", [ASG(IDX(V("v"), 1), lit(55.0)), ASG(("swz", V("v"), "zx"), ("swz", V("v"), "xy")), ("ret", V("v"))]),
                       ("dyn-index-write-then-swizzle-read", [ASG(IDX(V("v"), V("i")), lit(55.0)), ("ret", CTOR(F4_, ("swz", V("v"), "wzy"), IDX(V("v"), 0)))]),
                       ("swizzle-write-then-index-write-then-swizzle-read", [ASG(("swz", V("v"), "xw"), CTOR(VT("float", 2), lit(7.0), lit(8.0))), ASG(IDX(V("v"), 2), lit(9.0)), ("ret", ("swz", V("v"), "wzyx"))]),
                       ("two-index-writes-then-swizzle", [ASG(IDX(V("v"), 0), lit(5.0)), ASG(IDX(V("v"), 3), IDX(V("v"), 0)), ("ret", ("swz", V("v"), "wxyz"))])):
        name = f"f{len(units)}"
        units.append({"funcs": [func(name, [(F4_, "v"), ("int", "i")], F4_, body_)], "entry": name, "inputs": [({"v": [1.0, 2.0, 3.0, 4.0], "i": i_}, {}) for i_ in (0, 2)], "desc": f"store-then-swizzle;{nm_}"})
    # both operands the same variable
    for n in (2, 3, 4):
        T = VT("float", n)
        a = vec_value("float", n, 1)
        for op in ("+", "-"):
            add([(T, "v")], T, B(op, V("v"), V("v")), [({"v": a}, {})], f"vector{op}itself")
        add([(T, "v")], VT("int", n), B("==", V("v"), V("v")), [({"v": a}, {})], "vector==itself")
    for n in (3, 4):
        M = ("mat", "float", n, n)
        A = mat_value(n, 1)
        A[0][n - 1] = 0.25
        add([(M, "m")], M, B("*", V("m"), V("m")), [({"m": A}, {})], "matrix*itself")
        add([(M, "m")], M, B("+", V("m"), V("m")), [({"m": A}, {})], "matrix+itself")
        add([(M, "m")], VT("float", n), B("*", V("m"), IDX(V("m"), n - 1)), [({"m": A}, {})], "matrix*own-row")
        add([(M, "m"), (M, "k")], M, B("*", B("*", V("m"), V("k")), V("m")), [({"m": A, "k": mat_value(n, 20)}, {})], "matrix*matrix*matrix")
    # mixed int/float vector arithmetic (promotion of a whole vector)
    add([(VT("int", 3), "v"), (VT("float", 3), "w")], VT("float", 3), B("+", V("v"), V("w")), [({"v": [1, 2, 3], "w": [0.5, 1.5, 2.5]}, {})], "vector+vector;mixed")
    add([(VT("int", 3), "v"), ("float", "s")], VT("float", 3), B("*", V("v"), V("s")), [({"v": [1, 2, 3], "s": 1.5}, {})], "vector*scalar;mixed")
    for n in (3, 4):
        M = ("mat", "float", n, n)
        A, Bm = mat_value(n, 1), mat_value(n, 40)
        Bm[0][1] = 0.25
        for r in range(n):
            add([(M, "m")], VT("float", n), IDX(V("m"), r), [({"m": A}, {})], "matrix-row-read;const")
            for k in range(n):
                add([(M, "m")], "float", IDX(IDX(V("m"), r), k), [({"m": A}, {})], "matrix-elem-read;const")
        add([(M, "m"), ("int", "i"), ("int", "j")], "float", IDX(IDX(V("m"), V("i")), V("j")), [({"m": A, "i": i, "j": j}, {}) for i in range(n) for j in range(n)], "matrix-elem-read;dyn")
        add([(M, "m"), ("int", "i")], VT("float", n), IDX(V("m"), V("i")), [({"m": A, "i": i}, {}) for i in range(n)], "matrix-row-read;dyn")
        for op in ("+", "-"):
            add([(M, "m"), (M, "k")], M, B(op, V("m"), V("k")), [({"m": A, "k": Bm}, {})], f"matrix{op}matrix")
        add([(M, "m"), (M, "k")], M, B("*", V("m"), V("k")), [({"m": A, "k": Bm}, {}), ({"m": Bm, "k": A}, {})], "matrix*matrix")
        add([(M, "m"), ("float", "s")], M, B("*", V("m"), V("s")), [({"m": A, "s": 2.0}, {})], "matrix*scalar")
        add([(M, "m"), ("float", "s")], M, B("*", V("s"), V("m")), [({"m": A, "s": 2.0}, {})], "scalar*matrix")
        add([(M, "m"), ("float", "s")], M, B("/", V("m"), V("s")), [({"m": A, "s": 2.0}, {})], "matrix/scalar")
        add([(M, "m"), (VT("float", n), "v")], VT("float", n), B("*", V("m"), V("v")), [({"m": A, "v": vec_value("float", n, 3)}, {})], "matrix*vector")
        add([(VT("float", n), "a"), (VT("float", n), "b"), (VT("float", n), "c"), (VT("float", n), "d")], M,
            CTOR(M, *[V(x) for x in "abcd"[:n]]), [({x: vec_value("float", n, 10 * (k + 1)) for k, x in enumerate("abcd")}, {})], "matrix-ctor;rows")
    # constructors: every composition of n into ordered parts from {scalar, vec2, vec3}
    for c in ("float", "int"):
        for n in (2, 3, 4):
            for parts in _compositions_from(n, (1, 2, 3)):
                if parts == (n,) and n > 1:
                    pass
                params, args, vals = [], [], {}
                base = 1
                for k, p in enumerate(parts):
                    nm = f"q{k}"
                    if p == 1:
                        params.append((c, nm))
                        vals[nm] = float(base) + 0.5 if c == "float" else base
                    else:
                        params.append((VT(c, p), nm))
                        vals[nm] = vec_value(c, p, base)
                    args.append(V(nm))
                    base += 10
                if len(parts) == 1 and parts[0] == n:
                    continue   # float3(vec3) is a plain copy; covered by copies
                add(params, VT(c, n), CTOR(VT(c, n), *args), [(vals, {})], f"vector-ctor;{c};parts={len(parts)}")
    # constructors whose arguments have ANOTHER component type than the result (conversion of scalar and of vector arguments);
    # float -> int only with non-negative values, where floor and truncation agree
    for n in (2, 3, 4):
        for parts in _compositions_from(n, (1, 2, 3)):
            for tc, ac in (("int", "float"), ("float", "int"), ("uint", "float")):
                params, args, vals = [], [], {}
                base = 1
                for k, p in enumerate(parts):
                    nm = f"q{k}"
                    if p == 1:
                        params.append((ac, nm))
                        vals[nm] = float(base) + 0.5 if ac == "float" else base
                    else:
                        params.append((VT(ac, p), nm))
                        vals[nm] = vec_value(ac, p, base)
                    args.append(V(nm))
                    base += 10
                add(params, VT(tc, n), CTOR(VT(tc, n), *args), [(vals, {})], f"vector-ctor;{tc}-from-{ac};parts={len(parts)}")
    # constructor with int arguments for a float vector (promotion per component)
    add([("int", "a"), ("float", "b"), (VT("int", 2), "w")], VT("float", 4), CTOR(VT("float", 4), V("a"), V("b"), V("w")), [({"a": 3, "b": 1.5, "w": [7, 9]}, {})], "vector-ctor;mixed-component-types")
    return units


def _compositions_from(n, parts):
    if n == 0:
        yield ()
        return
    for p in parts:
        if p <= n:
            for rest in _compositions_from(n - p, parts):
                yield (p,) + rest


def v_copy_case(tn, mutate, which):
    """Copy a vector/matrix, mutate source or copy through one write form, read both."""
    T = VT("float", 4) if tn == "float4" else ("mat", "float", 3, 3)
    body = [("decl", T, "src", V("p")), ("decl", T, "cpy", V("src"))]
    tgt = V("src") if which == "source" else V("cpy")
    if tn == "float4":
        w = {"index": ASG(IDX(tgt, 1), lit(91.0)), "index-dyn": ASG(IDX(tgt, V("i")), lit(91.0)), "swizzle": ASG(("swz", tgt, "zx"), CTOR(VT("float", 2), lit(91.0), lit(92.0))),
             "assign": ASG(tgt, B("*", tgt, lit(2.0))), "compound": ASG(tgt, lit(2.0), "*=")}[mutate]
    else:
        w = {"index": ASG(IDX(tgt, 1), CTOR(VT("float", 3), lit(91.0), lit(92.0), lit(93.0))), "index-dyn": ASG(IDX(IDX(tgt, V("i")), V("i")), lit(91.0)),
             "swizzle": ASG(("swz", IDX(tgt, 2), "y"), lit(91.0)), "assign": ASG(tgt, B("+", tgt, tgt)), "compound": ASG(tgt, lit(2.0), "*=")}[mutate]
    body.append(w)
    locs = [V("src"), V("cpy"), V("p")]
    body += [("if", B("==", V("sel"), lit(k)), ("block", [("ret", e)]), None) for k, e in enumerate(locs)]
    body.append(("ret", V("p")))
    f = func("f", [("int", "sel"), ("int", "i"), (T, "p")], T, body)
    val = vec_value("float", 4, 1) if tn == "float4" else mat_value(3, 1)
    return {"fam": "V", "desc": f"copy;{tn};mutate={mutate};of={which}", "units": [{"funcs": [f], "entry": "f", "inputs": [({"sel": s, "i": i, "p": val}, {}) for i in (0, 2) for s in range(3)]}]}


def v_ctor_alias_case(shape, storage, mutate):
    """A constructed vector/matrix is a new value: its parts (variables) are used again afterwards - in a second constructor, read
    back, or written - and the constructed value is written; every variable involved is read at the end."""
    F2, F3, F4, M3 = VT("float", 2), VT("float", 3), VT("float", 4), ("mat", "float", 3, 3)
    globs, params, pre = [], [("int", "sel"), ("float", "s")], []
    if shape == "matrix-rows":
        PT, names = F3, ["ra", "rb", "rc"]
    else:
        PT, names = {"vec2-first": F2, "vec2-last": F2, "vec2-twice": F2, "vec3-first": F3}[shape], ["uv"]
    for nm in names:
        if storage == "param":
            params.append((PT, nm))
        elif storage == "global":
            globs.append((PT, nm))
        else:
            params.append((PT, "in_" + nm))
            pre.append(("decl", PT, nm, V("in_" + nm)))
    if shape == "matrix-rows":
        RT = M3
        body = [("decl", M3, "p", CTOR(M3, V("ra"), V("rb"), V("rc"))), ("decl", M3, "q", CTOR(M3, V("rc"), V("ra"), V("ra")))]
        w = {"none": [], "source": [ASG(("swz", V("ra"), "y"), lit(91.0)), ASG(IDX(V("rc"), 0), lit(92.0))], "result": [ASG(IDX(IDX(V("p"), 0), 1), lit(93.0)), ASG(IDX(V("q"), 2), CTOR(F3, V("s"), V("s"), V("s")))]}[mutate]
        reads = [V("p"), V("q"), CTOR(M3, V("ra"), V("rb"), V("rc"))]
    else:
        RT = F4
        mk = {"vec2-first": lambda a, b: CTOR(F4, V("uv"), a, b), "vec2-last": lambda a, b: CTOR(F4, a, b, V("uv")), "vec2-twice": lambda a, b: CTOR(F4, V("uv"), V("uv")),
              "vec3-first": lambda a, b: CTOR(F4, V("uv"), a)}[shape]
        body = [("decl", F4, "p", mk(lit(0.0), lit(1.0))), ("decl", F4, "q", mk(V("s"), V("s")))]
        w = {"none": [], "source": [ASG(("swz", V("uv"), "x"), lit(91.0))], "result": [ASG(("swz", V("p"), "yx"), CTOR(F2, lit(93.0), lit(94.0))), ASG(IDX(V("q"), 0), lit(95.0))]}[mutate]
        reads = [V("p"), V("q"), mk(lit(5.0), lit(6.0))]
    body = pre + body + w
    body += [("if", B("==", V("sel"), lit(k)), ("block", [("ret", e)]), None) for k, e in enumerate(reads)]
    body.append(("ret", reads[0]))
    f = func("f", params, RT, body)
    val = lambda k: vec_value("float", PT[2], 1 + 3 * k)
    inputs = []
    for sel in range(3):
        args = {"sel": sel, "s": 7.5}
        g = {}
        for k, nm in enumerate(names):
            if storage == "param":
                args[nm] = val(k)
            elif storage == "global":
                g[nm] = val(k)
            else:
                args["in_" + nm] = val(k)
        inputs.append((args, g))
    return {"fam": "V", "desc": f"ctor-parts-reused;{shape};{storage};mutate={mutate}", "prog": {"globals": globs}, "units": [{"funcs": [f], "entry": "f", "inputs": inputs}]}


@family("V")
def fam_V(tier):
    for shape in ("vec2-first", "vec2-last", "vec2-twice", "vec3-first", "matrix-rows"):
        for storage in ("param", "local", "global"):
            for mutate in ("none", "source", "result"):
                yield (v_ctor_alias_case, shape, storage, mutate)
    yield from _pack("V", v_swizzle_read_units(tier), "swizzle-read")
    yield from _pack("V", v_misc_units(tier), "vector-matrix-ops")
    for c in ("float", "int"):
        for n in (2, 3, 4):
            for target in ("local", "param", "global", "array-elem", "array-elem-dyn"):
                if c == "int" and tier == "quick" and target not in ("local", "global"):
                    continue
                for mask in _perm_masks(n, "xyzw"):
                    yield (v_write_case, "swizzle", c, n, mask, target)
                if c == "float" and target == "local":
                    for mask in _perm_masks(n, "rgba"):
                        yield (v_write_case, "swizzle", c, n, mask, target)
                for k in range(n):
                    yield (v_write_case, "index", c, n, k, target)
                yield (v_write_case, "index-dyn", c, n, None, target)
    for kind in ("field-swizzle", "row-swizzle", "row-swizzle-dyn"):
        for mask in (list(_perm_masks(4, "xyzw")) if kind == "field-swizzle" else list(_perm_masks(3, "xyzw"))):
            if tier == "quick" and len(mask) > 2 and kind != "field-swizzle":
                continue
            yield (v_struct_matrix_write_case, kind, mask)
    for kind in ("field-index", "field-matrix-elem", "field-matrix-row", "global-matrix-elem", "param-matrix-row"):
        yield (v_struct_matrix_write_case, kind, "x")
    for tn in ("float4", "float3x3"):
        for mutate in ("index", "index-dyn", "swizzle", "assign", "compound"):
            for which in ("source", "copy"):
                yield (v_copy_case, tn, mutate, which)


# =============================================================================================
# T: type grids that walk the fence of the front end (C05)
# =============================================================================================
SPELL_TYPES = ["int", "float", "uint", "float2", "float3", "float4", "int2", "int3", "int4", "uint2", "uint3", "uint4", "float3x3", "float4x4"]
T_EXTRA_DECLS = "struct SS { int fld; float4 vec; int[2] arr; }\n"
T_AGG_TYPES = ["SS", "int[2]", "int[2][3]", "float[2][2][2]", "float4[2]", "SS[2]"]


def canon_value(t, distinct=False):
    import re
    m = re.fullmatch(r"(int|float|uint)(\d)?(x(\d))?", t)
    if m:
        c = m.group(1)
        base = (lambda k: (k + 1.5) if distinct else 2.0) if c == "float" else (lambda k: (k + 1) if distinct else 1)
        if m.group(3):
            n = int(m.group(2))
            return [[base(i * n + j) for j in range(n)] for i in range(n)]
        if m.group(2):
            return [base(i) for i in range(int(m.group(2)))]
        return base(0)
    if t == "SS":
        return {"fld": 3, "vec": [1.0, 2.0, 3.0, 4.0], "arr": [5, 6]}
    m = re.fullmatch(r"(\w+?)((\[\d\])+)", t)
    if m:
        dims = [int(x) for x in re.findall(r"\[(\d)\]", m.group(2))]

        def build(ds):
            if not ds:
                return canon_value(m.group(1), distinct)
            return [build(ds[1:]) for _ in range(ds[0])]
        return build(dims)
    raise ValueError(t)


def t_case(feat, params, body, globals_=(), rt="void", extra=""):
    pdecl = ", ".join(f"{t} {n}" for t, n in params)
    gdecl = "".join(f"{t} {n};\n" for t, n in globals_)
    src = T_EXTRA_DECLS + gdecl + extra + f"export function f({pdecl}) -> {rt}\n{{\n    {body}\n}}\n"
    inputs = []
    for distinct in (False, True):
        args = {n: canon_value(t, distinct) for t, n in params}
        if "i" in args:
            args["i"] = 1 if distinct else 0      # dynamic indices stay inside every selected dimension
        inputs.append((args, {n: canon_value(t, distinct) for t, n in globals_}))
    return {"fam": "T", "desc": feat, "src": src, "units": [{"funcs": [], "entry": "f", "inputs": inputs}]}


def shape_of(t):
    if t in ("int", "float", "uint"):
        return "scalar"
    if "x" in t:
        return "matrix"
    if t in T_AGG_TYPES:
        return "struct" if t == "SS" else "array"
    return "vector"


@family("T")
def fam_T(tier):
    ALL = SPELL_TYPES + (T_AGG_TYPES if tier == "thorough" else ["SS", "int[2]", "int[2][3]"])
    # binary operators over every ordered pair of spellable primitive types (aggregates only in thorough)
    for op in BINOPS:
        for L in SPELL_TYPES:
            for R in SPELL_TYPES:
                oc = "cmp" if op in CMPOPS else op
                yield (t_case, f"binary;op={oc};{shape_of(L)},{shape_of(R)}", [(L, "a"), (R, "b")], f"a {op} b;")
        if tier == "thorough":
            for L in T_AGG_TYPES:
                for R in ("int", "float4", L):
                    yield (t_case, f"binary;op={op};aggregate", [(L, "a"), (R, "b")], f"a {op} b;")
    # assignment / initialisation / compound assignment between every pair
    for L in ALL:
        for R in ALL:
            yield (t_case, f"assign;{shape_of(L)}<-{shape_of(R)}", [(L, "a"), (R, "b")], "a = b;")
            yield (t_case, f"init;{shape_of(L)}<-{shape_of(R)}", [(R, "b")], f"{L} v = b;")
            if L in SPELL_TYPES and R in SPELL_TYPES:
                for cop in ("+=", "-=", "*=", "/="):
                    yield (t_case, f"compound{cop};{shape_of(L)}<-{shape_of(R)}", [(L, "a"), (R, "b")], f"a {cop} b;")
            yield (t_case, f"global-assign;{shape_of(L)}<-{shape_of(R)}", [(R, "b")], "g = b;", [(L, "g")])
            yield (t_case, f"return;{shape_of(L)}<-{shape_of(R)}", [(R, "b")], "return b;", (), L)
    # call: argument type x parameter type
    for P in ALL:
        for A in ALL:
            yield (t_case, f"call;{shape_of(P)}<-{shape_of(A)}", [(A, "a")], "g(a);", (), "void", f"function g({P} p) -> void {{ }}\n")
    # constructors
    kinds = {"int": "int", "float": "float", "uint": "uint", "vec2": "float2", "vec3": "int3"}
    for T in SPELL_TYPES:
        n = 16 if T.endswith("4x4") else 9 if T.endswith("3x3") else int(T[-1]) if T[-1].isdigit() else 1
        maxargs = min(n, 4)
        for k in range(1, maxargs + 1):
            for combo in itertools.product(sorted(kinds), repeat=k):
                params = [(kinds[c], f"q{i}") for i, c in enumerate(combo)]
                comps = sum({"vec2": 2, "vec3": 3}.get(c, 1) for c in combo)
                yield (t_case, f"ctor;{shape_of(T)};components={'exact' if comps == n else 'fewer' if comps < n else 'more'}", params,
                       f"{T} v = {T}(" + ", ".join(f"q{i}" for i in range(k)) + ");")
    ext = {"mat3": "float3x3", "mat4": "float4x4", "struct": "SS", "array": "int[2]"}
    for T in SPELL_TYPES:
        for k in range(1, 4):
            for pos in range(k):
                for ek in sorted(ext):
                    for combo in itertools.product(sorted(kinds), repeat=k - 1):
                        combo = list(combo)
                        names = combo[:pos] + [ek] + combo[pos:]
                        params = [((ext.get(c) or kinds[c]), f"q{i}") for i, c in enumerate(names)]
                        yield (t_case, f"ctor;{shape_of(T)};with-{ek}-argument", params, f"{T} v = {T}(" + ", ".join(f"q{i}" for i in range(k)) + "); v = v * 2;")
    for T in ("float3x3", "float4x4"):
        n = int(T[-1])
        for rowt in (f"float{n}", f"int{n}", "float2"):
            yield (t_case, f"ctor;matrix-from-rows;{rowt}", [(rowt, f"r{i}") for i in range(n)], f"{T} v = {T}(" + ", ".join(f"r{i}" for i in range(n)) + ");")
    # element selection on every type
    for T in ALL + (["float4[2]", "SS[2]"] if tier == "quick" else []):
        for sel, nm in ((".x", "swizzle1"), (".xy", "swizzle2"), (".fld", "member"), (".vec", "member-vec"), (".vec.zy", "member-swizzle"), (".arr[1]", "member-index"),
                        ("[0]", "index"), ("[i]", "index-dyn"), ("[0][0]", "index2"), ("[i][0]", "index2-dyn"), ("[0].x", "index-swizzle"), ("[1].fld", "index-member"),
                        ("[0][1][1]", "index3")):
            yield (t_case, f"select-read;{nm};{shape_of(T)}", [(T, "a"), ("int", "i")], f"a{sel};")
            yield (t_case, f"select-write;{nm};{shape_of(T)}", [(T, "a"), ("int", "i")], f"a{sel} = 1;")
            yield (t_case, f"select-write-float;{nm};{shape_of(T)}", [(T, "a"), ("int", "i")], f"a{sel} = 1.5;")
            yield (t_case, f"select-copy;{nm};{shape_of(T)}", [(T, "a"), (T, "b"), ("int", "i")], f"a{sel} = b{sel};")
        for aff in ("++a;", "a++;", "--a;", "a--;"):
            yield (t_case, f"affix;{shape_of(T)}", [(T, "a")], aff)
        yield (t_case, f"affix-global;{shape_of(T)}", [], "++g;", [(T, "g")])
        # statements with a condition of every type (loops are guarded so they end)
        yield (t_case, f"cond-if;{shape_of(T)}", [(T, "a")], "int r = 0; if (a) { r = 1; } else { r = 2; }")
        yield (t_case, f"cond-while;{shape_of(T)}", [(T, "a")], "int n = 0; while (a) { n = n + 1; if (n > 1) { break; } }")
        yield (t_case, f"cond-for;{shape_of(T)}", [(T, "a")], "for (int n = 0; a; ++n) { if (n > 1) { break; } }")
        yield (t_case, f"cond-do;{shape_of(T)}", [(T, "a")], "int n = 0; do { n = n + 1; if (n > 1) { break; } } while (a)")
        # declarations of every type in every role
        yield (t_case, f"decl-local;{shape_of(T)}", [], f"{T} v; {T} w = v;")
        yield (t_case, f"decl-local-in-loop;{shape_of(T)}", [], f"for (int n = 0; n < 2; ++n) {{ {T} v; }}")
        yield (t_case, f"decl-global-read;{shape_of(T)}", [], f"{T} v = g;", [(T, "g")])
        yield (t_case, f"decl-param-return;{shape_of(T)}", [(T, "a")], "return a;", (), T)
        yield (t_case, f"index-with;{shape_of(T)}", [(T, "a"), ("int[2]", "arr")], "arr[a];")
        # index expressions of every expression kind whose operand needs an implicit conversion to the type T
        yield (t_case, f"index-ctor-of;{shape_of(T)}", [(T, "a"), ("int[3]", "arr")], "arr[int(a)];")
        yield (t_case, f"index-call-with;{shape_of(T)}", [(T, "a"), ("int[3]", "arr")], "arr[gi1(a)];", (), "void", "function gi1(int p) -> int { return 1; }\n")
        yield (t_case, f"index-call-literal;{shape_of(T)}", [(T, "a"), ("int[2][2]", "arr")], "arr[gi1(1.0)][gi1(0.0)] = 1;", (), "void", "function gi1(int p) -> int { return p; }\n")
        yield (t_case, f"index-binary-with;{shape_of(T)}", [(T, "a"), ("int[2]", "arr"), ("uint", "u")], "arr[u - u];")
    # assignment used as a value, chained forms
    for T in ("int", "float", "float4"):
        yield (t_case, f"assign-as-value;{shape_of(T)}", [(T, "a"), (T, "b")], "a = b = a;")
        yield (t_case, f"assign-as-operand;{shape_of(T)}", [(T, "a"), (T, "b")], "a = (a + b) + b;")
        yield (t_case, f"assign-in-call;{shape_of(T)}", [(T, "a"), (T, "b")], "g(a = b);", (), "void", f"function g({T} p) -> void {{ }}\n")
        yield (t_case, f"assign-in-cond;{shape_of(T)}", [(T, "a"), (T, "b")], "if (a = b) { }")
        yield (t_case, f"compound-as-value;{shape_of(T)}", [(T, "a"), (T, "b")], "b = a += b;")
    for src_body, feat in (("return;", "bare-return-in-void"), ("int r = 1;", "no-return-in-void"), ("{ } { { } }", "empty-blocks"), ("while (0) ;", "while-empty"),
                           ("for (;;) { break; }", "for-empty-header"), ("int[3] arr; arr[2] = arr[0];", "local-array"), ("float x = 1; int i = x;", "float-to-int-init"),
                           ("float x = 2.5; int[3] arr; arr[x] = 1;", "float-index"), ("int i = 2.0;", "int-from-float-literal"), ("uint u = 3; int i = 0 - 5; u = i;", "negative-to-uint")):
        yield (t_case, f"misc;{feat}", [], src_body)


# =============================================================================================
# LONG: long bodies / deep expressions (pickle recursion depth, C17; size sweeps)
# =============================================================================================
@family("LONG")
def fam_LONG(tier):
    ns = [1, 2, 5, 10, 50, 100, 200, 400] if tier == "quick" else list(range(1, 401, 7))
    for n in ns:
        body = " ".join(f"a = a + {i % 5 + 1};" for i in range(n))
        src = f"export function f(int a) -> int {{ {body} return a; }}\n"
        yield {"fam": "LONG", "desc": f"statements={n}", "src": src, "units": [{"funcs": [], "entry": "f", "inputs": [({"a": 1}, {})]}]}
    for n in ([2, 10, 40, 80, 120] if tier == "quick" else list(range(2, 121, 6))):
        e = " + ".join(["a"] * n)
        src = f"export function f(int a) -> int {{ return {e}; }}\n"
        yield {"fam": "LONG", "desc": f"operands={n}", "src": src, "units": [{"funcs": [], "entry": "f", "inputs": [({"a": 3}, {})]}]}
    for n in ([127, 128, 130] if tier == "quick" else [100, 127, 128, 129, 200, 300]):
        src = "".join(f"{'export ' if k % 7 == 0 else ''}function fn{k}(int a) -> int {{ return a + {k}; }}\n" for k in range(n - 1))
        src += "export function f(int a) -> int { return a + 1; }\n"
        yield {"fam": "LONG", "desc": f"functions={n}", "src": src, "units": [{"funcs": [], "entry": "f", "inputs": [({"a": 1}, {})]}]}
    for n in ([1, 5, 20] if tier == "quick" else [1, 2, 5, 10, 20, 40]):
        loops = "".join(f"for (int i{k} = 0; i{k} < 2; ++i{k}) {{ " for k in range(n)) + "a = a + 1; " + "} " * n
        src = f"export function f(int a) -> int {{ {loops} return a; }}\n"
        if n <= 10:
            yield {"fam": "LONG", "desc": f"nested-loops={n}", "src": src, "units": [{"funcs": [], "entry": "f", "inputs": [({"a": 0}, {})]}]}


# =============================================================================================
# W: the wasm backend's scalar straight-line subset (C06, C07) + constructs outside it
# =============================================================================================
W_OPS = ["+", "-", "*", "/", "==", "<", ">"]
W_INT_CONSTS = [0, 1, -1, 63, 64, -64, -65, 127, 128, 8191, 8192, -8192, -8193, 1 << 20, (1 << 31) - 1, -(1 << 31) + 1]
W_FLOAT_CONSTS = [0.5, 1.0, 2.0, 0.25, 1.5, 1024.0, 3.0, 0.0]
W_INT_INPUTS = [-(1 << 31) + 1, -65, -64, -1, 0, 1, 63, 64, (1 << 31) - 1]
W_FLOAT_INPUTS = [-1.5, 0.0, 0.5, 2.0]


def w_signatures(maxar):
    for k in range(0, maxar + 1):
        for sig in itertools.product(("int", "float"), repeat=k):
            yield sig


def w_trees(n, leaves, ops):
    if n == 0:
        for l in leaves:
            yield l
        return
    for k in range(n):
        for op in ops:
            for l in w_trees(k, leaves, ops):
                for r in w_trees(n - 1 - k, leaves, ops):
                    yield ("bin", op, l, r)


def _w_inputs(sig):
    doms = [W_INT_INPUTS if t == "int" else W_FLOAT_INPUTS for t in sig]
    if len(sig) <= 2:
        combos = list(itertools.product(*doms))
    else:
        # pairwise: every pair of positions sees every pair of values at least once (rotating third)
        combos = []
        for i, a in enumerate(doms[0]):
            for j, b in enumerate(doms[1]):
                combos.append((a, b, doms[2][(i + j) % len(doms[2])]))
        for j, b in enumerate(doms[1]):
            for k, c in enumerate(doms[2]):
                combos.append((doms[0][(j + k) % len(doms[0])], b, c))
    return [({f"p{i}": v for i, v in enumerate(vals)}, {}) for vals in combos]


def _w_pack(sig, trees, start, per_module):
    tenv = {f"p{i}": t for i, t in enumerate(sig)}
    params = [(t, f"p{i}") for i, t in enumerate(sig)]
    units = []
    for j, e in enumerate(trees):
        rt = stype(e, tenv)
        name = f"w{j}"
        units.append({"funcs": [func(name, params, rt, [("ret", e)])], "entry": name, "inputs": _w_inputs(sig),
                      "desc": "ops=" + ",".join(sorted(set(ops_of(e)))) + ";sig=" + "".join(t[0] for t in sig) + ";res=" + rt[0]})
    return {"fam": "W", "desc": "wasm-subset", "units": units, "mode": "min"}


@family("W")
def fam_W(tier):
    per_module = 12
    idx = 0
    for sig in w_signatures(3):
        maxn = 2 if (len(sig) <= 2 or tier == "thorough") else 1
        params = [("var", f"p{i}") for i in range(len(sig))]
        for n in range(0, maxn + 1):
            buf = []
            count = 0
            # constant slots take the next boundary constant in turn, so every constant meets every operator position
            leaves_base = list(params)
            for e in _w_const_trees(n, leaves_base):
                buf.append(e)
                if len(buf) == per_module:
                    yield (_w_pack, sig, buf, idx, per_module)
                    buf = []
            if buf:
                yield (_w_pack, sig, buf, idx, per_module)
            idx += 1


def _w_const_trees(n, params):
    """Trees with exactly n operators over params and constant slots; each constant slot takes the next boundary constant."""
    counter = [0]

    def const(kind):
        counter[0] += 1
        if kind == "i":
            return lit(W_INT_CONSTS[counter[0] % len(W_INT_CONSTS)])
        return lit(W_FLOAT_CONSTS[counter[0] % len(W_FLOAT_CONSTS)])

    def rec(k):
        if k == 0:
            for p in params:
                yield p
            yield ("ci",)
            yield ("cf",)
            return
        for a in range(k):
            for op in W_OPS:
                for l in rec(a):
                    for r in rec(k - 1 - a):
                        yield ("bin", op, l, r)

    def fill(e):
        if e[0] == "ci":
            return const("i")
        if e[0] == "cf":
            return const("f")
        if e[0] == "bin":
            return ("bin", e[1], fill(e[2]), fill(e[3]))
        return e
    for e in rec(n):
        yield fill(e)


# constructs outside the subset: must agree or be refused; each is observable (dropping it changes the result)
W_OUTSIDE = [
    ("local-variable", "export function f(int a) -> int { int v = a + 1; return v * 2; }"),
    ("store-to-parameter", "export function f(int a) -> int { a = a + 5; return a; }"),
    ("compound-store-to-parameter", "export function f(int a, int b) -> int { b += a; return b * 2; }"),
    ("global-read", "int g;\nexport function f(int a) -> int { return a + g; }"),
    ("global-write", "int g;\nexport function f(int a) -> int { g = a; return g + 1; }"),
    ("if", "export function f(int a) -> int { if (a > 0) { return 1; } return 2; }"),
    ("if-else", "export function f(int a) -> int { if (a > 0) { a = a + 1; } else { a = a - 1; } return a; }"),
    ("for", "export function f(int a) -> int { for (int i = 0; i < 3; ++i) { a = a + 2; } return a; }"),
    ("while", "export function f(int a) -> int { while (a < 10) { a = a + 3; } return a; }"),
    ("do", "export function f(int a) -> int { do { a = a + 3; } while (a < 10) return a; }"),
    ("call", "function g(int p) -> int { return p * 3; }\nexport function f(int a) -> int { return g(a) + 1; }"),
    ("le", "export function f(int a, int b) -> int { return a <= b; }"),
    ("ge", "export function f(int a, int b) -> int { return a >= b; }"),
    ("ne", "export function f(int a, int b) -> int { return a != b; }"),
    ("mod", "export function f(int a, int b) -> int { return a % (b * b + 3); }"),
    ("and", "export function f(int a, int b) -> int { return a && b; }"),
    ("or", "export function f(int a, int b) -> int { return a || b; }"),
    ("void-function", "export function f(int a) -> void { a = a + 1; }"),
    ("void-return", "export function f(int a) -> void { return; }"),
    ("pre-increment", "export function f(int a) -> int { ++a; return a; }"),
    ("post-increment-value", "export function f(int a) -> int { return a++ + a; }"),
    ("float-to-int-argument", "export function f(float x) -> int { int[2] arr; arr[0] = 4; arr[1] = 9; return arr[x]; }"),
    ("int-to-float", "export function f(int a, float x) -> float { return a + x; }"),
    ("float-compare", "export function f(float x, float y) -> int { return x < y; }"),
    ("float-compare-mixed", "export function f(int a, float y) -> int { return a > y; }"),
    ("uint-div", "export function f(uint a, uint b) -> uint { return a / (b + 1); }"),
    ("uint-compare", "export function f(uint a, uint b) -> int { return a < b; }"),
    ("vector", "export function f(float4 v) -> float { return v[1]; }"),
    ("vector-arith", "export function f(float a) -> float { float2 v = float2(a, a); return v.x + v.y; }"),
    ("matrix", "export function f(float3x3 m) -> float { return m[1][1]; }"),
    ("array", "export function f(int a) -> int { int[2] arr; arr[1] = a; return arr[1]; }"),
    ("struct", "struct SS { int fld; }\nexport function f(int a) -> int { SS s; s.fld = a; return s.fld; }"),
    ("swizzle", "export function f(float2 v) -> float { return v.y; }"),
    ("unused-expression-statement", "export function f(int a) -> int { a * 2; return a + 1; }"),
    ("two-returns", "export function f(int a) -> int { return a + 1; return a + 2; }"),
    ("dead-code-after-return", "export function f(int a) -> int { return a; a = a + 1; }"),
    ("non-exported-helper-present", "function g(int p) -> int { return p * 3; }\nexport function f(int a) -> int { return a + 1; }"),
    ("float-constant", "export function f(float x) -> float { return x * 2.5; }"),
    ("float-div", "export function f(float x, float y) -> float { return x / y; }"),
    ("int-div-negative", "export function f(int a, int b) -> int { return a / b; }"),
    ("assignment-as-value", "export function f(int a, int b) -> int { return (a + 1) * (b + 2); }"),
    # the front end does not convert or check the returned value against the declared result type
    ("return-float-as-int", "export function f(float x, float y) -> int { return x / y; }"),
    ("return-int-as-float", "export function f(int a, int b) -> float { return a + b; }"),
    ("return-uint-as-int", "export function f(uint a, uint b) -> int { return a + b; }"),
    ("return-value-in-void", "export function f(int a) -> void { return a; }"),
    ("store-float-to-int-parameter", "export function f(int a, float x) -> int { a = x; return a; }"),
    ("store-int-to-float-parameter", "export function f(int a, float x) -> float { x = a; return x * 0.5; }"),
    ("return-int-literal-as-float", "export function f(float x) -> float { return 1; }"),
    ("return-float-literal-as-int", "export function f(int a) -> int { return 1.5; }"),
    ("return-int-literal-as-uint", "export function f(uint u) -> uint { return 5; }"),
    ("return-large-literal-as-uint", "export function f(uint u) -> uint { return 3000000000; }"),
    ("return-negative-literal-as-uint", "export function f(uint u) -> uint { return -5; }"),
    ("store-int-literal-to-float-parameter", "export function f(int a, float x) -> float { x = 2; return x * 0.5; }"),
    ("store-float-literal-to-int-parameter", "export function f(int a, float x) -> int { a = 2.5; return a; }"),
    ("store-int-literal-to-uint-parameter", "export function f(uint u) -> uint { u = 7; return u / 2; }"),
    ("store-negative-literal-to-uint-parameter", "export function f(uint u) -> uint { u = -7; return u / 2; }"),
    ("int-literal-operand-of-float", "export function f(float x) -> float { return x + 1; }"),
] + [
    (f"uint-constant;{text};{how}", f"export function f(uint u) -> uint {{ {body} }}")
    for text in ("0", "2147483647", "2147483648", "2147483649", "4294967295", "4294967296", "0x80000000", "0xFFFFFFFF")
    for how, body in (("operand", f"return u + uint({text});"), ("returned", f"return uint({text});"), ("compared", f"return u < uint({text});"), ("divided", f"return uint({text}) / (u + 1);"))
] + [
    ("float-literal-operand-of-int", "export function f(int a) -> float { return a + 1.5; }"),
    # a function with a result whose body never returns, alone / after / before functions that do return
    ("no-return;alone", "export function f(int a) -> int { a = a + 1; }"),
    ("no-return;empty-body", "export function f(int a) -> float { }"),
    ("no-return;after-returning-function", "export function g(int a) -> int { return a; }\nexport function f(int a) -> int { a = a + 1; }"),
    ("no-return;before-returning-function", "export function f(int a) -> int { a = a + 1; }\nexport function g(int a) -> int { return a; }"),
    ("no-return;after-void-function-with-return", "export function g(int a) -> void { return; }\nexport function f(int a) -> float { }"),
    ("no-return;between-returning-functions", "export function g(int a) -> int { return a; }\nexport function f(int a) -> int { a = a + 1; }\nexport function h(float x) -> float { return x; }"),
    ("void-falls-off;after-returning-function", "export function g(int a) -> int { return a; }\nexport function f(int a) -> void { a = a + 1; }"),
] + [
    # ++/-- on int and float variables: the constant 1 the lowering adds has to be emitted in the operand's own encoding
    (f"affix;{T};{form.format(v='v')};{storage};{ret}",
     f"export function f({T} a) -> {T if ret == 'value' else 'void'} {{ " + (f"{T} l = a; " if storage == "local" else "") + form.format(v="l" if storage == "local" else "a") + "; "
     + {"value": f"return {'l' if storage == 'local' else 'a'};", "void-falls-off": "", "void-return": "return;"}[ret] + " }")
    for T in ("int", "float") for form in ("++{v}", "{v}++", "--{v}", "{v}--") for storage in ("param", "local") for ret in ("value", "void-falls-off", "void-return")
] + [
    # integer literals at and beyond the edges of the 32-bit ranges, in every spelling: whatever is emitted has to be a valid
    # i32.const immediate (or the literal is refused); inside the signed range the value has to come back
    (f"int-literal;{text};{how}", f"export function f(int a) -> int {{ {body} }}")
    for text in ("2147483647", "2147483648", "4294967295", "4294967296", "0x7FFFFFFF", "0x80000000", "0xFFFFFFFF", "0x100000000", "-2147483648", "-2147483649",
                 "-4294967296", "99999999999", "037777777777", "1073741824", "-1073741825")
    for how, body in (("returned", f"return {text};"), ("operand", f"return a + {text};"), ("compared", f"return a < {text};"), ("stored", f"int v = {text}; return v - a;"))
]


def w_outside_case(name, src):
    import re
    m = re.search(r"export function f\(([^)]*)\) -> (\S+)", src)
    params = [tuple(p.strip().split()) for p in m.group(1).split(",") if p.strip()]
    vals = {"int": [-7, 0, 3, 12], "uint": [0, 3, 12], "float": [-1.5, 0.5, 2.0], "float4": [[1.0, 2.0, 3.0, 4.0]], "float2": [[1.5, 2.5]], "float3x3": [[[1.0, 2.0, 3.0], [4.0, 5.0, 6.0], [7.0, 8.0, 9.0]]]}
    doms = [vals[t] for t, n in params]
    inputs = [({n: v for (t, n), v in zip(params, combo)}, ({"g": 5} if "int g;" in src else {})) for combo in itertools.product(*doms)]
    return {"fam": "W", "desc": f"outside-subset;{name}", "src": src + "\n", "sig": [t for t, n in params], "ret": m.group(2),
            "units": [{"funcs": [], "entry": "f", "inputs": inputs}]}


@family("WO")
def fam_WO(tier):
    for name, src in W_OUTSIDE:
        yield w_outside_case(name, src)


# shape grid for validity (C07): functions x parameter patterns x value-type interleavings x result kinds
@family("WS")
def fam_WS(tier):
    maxlen = 4 if tier == "quick" else 6
    pats = [""] + ["".join(p) for L in range(1, maxlen + 1) for p in itertools.product("if", repeat=L)]
    sigs = list(w_signatures(2 if tier == "quick" else 4))
    for si, sig in enumerate(sigs):
        for pi, pat in enumerate(pats):
            for ret in ("int", "float", "void"):
                if tier == "quick" and (si + pi) % 3 != ("int", "float", "void").index(ret) and len(pat) > 2:
                    continue
                # body: one expression statement per pattern letter producing int / float IR values
                stmts = []
                for k, c in enumerate(pat):
                    stmts.append(f"{k + 1} + {k + 2};" if c == "i" else f"{k + 1}.5 + 0.5;")
                params = ", ".join(f"{t} p{i}" for i, t in enumerate(sig))
                if ret == "void":
                    tail = "return;" if (pi % 2) else ""
                else:
                    lit_ = "7" if ret == "int" else "7.5"
                    same = [f"p{i}" for i, t in enumerate(sig) if t == ret]
                    tail = f"return {same[0]} + {lit_};" if same else f"return {lit_};"
                nfun = 1 + (si + pi) % 3
                funcs = []
                for fi in range(nfun):
                    exp = "export " if (fi == 0 or (pi + fi) % 2) else ""
                    funcs.append(f"{exp}function f{fi}({params}) -> {ret} {{ {' '.join(stmts)} {tail} }}")
                src = "\n".join(funcs) + "\n"
                vals = {"int": 3, "float": 1.5}
                yield {"fam": "WS", "desc": f"shape;params={len(sig)};values={len(pat)};ret={ret};functions={nfun}", "src": src, "sig": list(sig), "ret": ret,
                       "units": [{"funcs": [], "entry": "f0", "inputs": [({f"p{i}": vals[t] for i, t in enumerate(sig)}, {})]}]}


# WM: modules whose functions have DIFFERENT signatures - every ordered pair of the 45 signatures
#     (0-3 int/float parameters x int/float/void result); shared type-section entries, index maps and
#     local numbering are per-module state that a single-signature module cannot expose
def wm_signatures():
    for sig in w_signatures(3):
        for ret in ("int", "float", "void"):
            yield sig, ret


def _wm_func(name, sig, ret, k, export):
    params = ", ".join(f"{t} p{i}" for i, t in enumerate(sig))
    same = [f"p{i}" for i, t in enumerate(sig) if t == ret]
    if ret == "void":
        body = " ".join(f"p{i} = p{i} + {k + 1}{'.5' if t == 'float' else ''};" for i, t in enumerate(sig))
    else:
        c = f"{k + 3}" if ret == "int" else f"{k}.25"
        terms = same + [c]
        body = "return " + " + ".join(terms) + ";"
    return f"{'export ' if export else ''}function {name}({params}) -> {ret} {{ {body} }}"


def wm_case(s1, s2, third=None):
    sigs = [s1, s2] + ([third] if third else [])
    funcs = [_wm_func(f"f{k}", sig, ret, k, True) for k, (sig, ret) in enumerate(sigs)]
    src = "\n".join(funcs) + "\n"
    vals = {"int": 5, "float": 1.5}
    units = []
    for k, (sig, ret) in enumerate(sigs):
        units.append({"funcs": [], "entry": f"f{k}", "inputs": [({f"p{i}": vals[t] for i, t in enumerate(sig)}, {})], "sig": list(sig)})
    d = lambda s: "".join(t[0] for t in s[0]) + ">" + s[1][0]
    return {"fam": "WM", "desc": f"two-signatures;arity={len(s1[0])},{len(s2[0])};results={s1[1]},{s2[1]}", "src": src, "units": units}


@family("WM")
def fam_WM(tier):
    sigs = list(wm_signatures())
    for a in sigs:
        for b in sigs:
            if a != b:
                yield (wm_case, a, b)
    if tier == "thorough":
        small = [s for s in sigs if len(s[0]) <= 2]
        for a in small:
            for b in small:
                for c in small:
                    if len({a, b, c}) == 3:
                        yield (wm_case, a, b, c)


# =============================================================================================
# M: float-typed storage holding integer values (no conversion is inserted at assignment /
#    initialisation / return / host calls) x consumers where int vs float matters (C01, C02, C05)
# =============================================================================================
def m_sources():
    """(name, extra params, setup statements, expression naming a float-typed location, python inputs)"""
    return [
        ("param-int-from-host", [("float", "s")], [], V("s")),
        ("local-init-int-var", [], [("decl", "float", "s", V("a"))], V("s")),
        ("local-init-int-literal", [], [("decl", "float", "s", lit(7))], V("s")),
        ("local-assigned-int-expr", [], [("decl", "float", "s", None), ASG(V("s"), B("+", V("a"), V("b")))], V("s")),
        ("global-int-from-host", [], [], V("gf")),
        ("array-element", [], [("decl", ("arr", "float", (2,)), "fa", None), ASG(IDX(V("fa"), 1), V("a"))], IDX(V("fa"), 1)),
        ("struct-field", [], [("decl", ("struct", "MS"), "ms", None), ASG(FLD(V("ms"), "ff"), V("a"))], FLD(V("ms"), "ff")),
        ("function-result", [], [("decl", "float", "s", ("call", "asfloat", [V("a")]))], V("s")),
        ("compound-assigned", [], [("decl", "float", "s", lit(1)), ASG(V("s"), V("a"), "*=")], V("s")),
        ("real-float", [], [("decl", "float", "s", lit(7.0))], V("s")),
    ]


def m_case(s1, s2, cname):
    n1, p1, setup1, e1 = s1
    n2, p2, setup2, e2 = s2
    # rename the second source's names so both can coexist
    def ren(x):
        if isinstance(x, tuple):
            return tuple(ren(y) for y in x)
        if isinstance(x, list):
            return [ren(y) for y in x]
        if isinstance(x, str) and x in ("s", "fa", "ms", "gf"):
            return x + "2"
        return x
    p2, setup2, e2 = ren(p2), ren(setup2), ren(e2)
    cons = {
        "div": B("/", e1, e2), "div-literal-left": B("/", lit(7), e2), "div-literal-right": B("/", e1, lit(2)),
        "mul-div": B("/", B("*", e1, lit(3)), e2), "div-then-compare": B("<", B("/", e1, e2), lit(3.25)),
        "div-in-sum": B("+", B("/", e1, e2), lit(0.25)), "div-compound": None,
    }[cname]
    body = list(setup1) + list(setup2)
    if cname == "div-compound":
        body += [("decl", "float", "r", e1), ASG(V("r"), e2, "/="), ("ret", V("r"))]
        rt = "float"
    else:
        rt = "int" if cname == "div-then-compare" else "float"
        body.append(("ret", cons))
    helper = func("asfloat", [("int", "p")], "float", [("ret", V("p"))], export=False)
    params = [("int", "a"), ("int", "b")] + list(p1) + list(p2)
    f = func("f", params, rt, body)
    inputs = []
    for a, b in ((7, 2), (9, 4), (-7, 2)):
        args = {"a": a, "b": b}
        for t, n in list(p1) + list(p2):
            args[n] = 7 if n == "s" else 2      # Python ints for float parameters (the suite itself does that)
        inputs.append((args, {"gf": 7, "gf2": 2}))
    return {"fam": "M", "desc": f"float-holding-int;{n1}/{n2};{cname}", "prog": {"funcs": [helper], "globals": [("float", "gf"), ("float", "gf2")], "structs": [("MS", [("float", "ff")])]},
            "units": [{"funcs": [f], "entry": "f", "inputs": inputs}]}


@family("M")
def fam_M(tier):
    srcs = m_sources()
    for s1 in srcs:
        for s2 in srcs:
            for cname in ("div", "div-literal-left", "div-literal-right", "mul-div", "div-then-compare", "div-in-sum", "div-compound"):
                if cname in ("div-literal-left",) and s1 is not srcs[0]:
                    continue
                if cname in ("div-literal-right",) and s2 is not srcs[0]:
                    continue
                yield (m_case, s1, s2, cname)


# =============================================================================================
# U: int / uint / float mixes (type identity of integer types matters for listings, casts and wasm opcodes)
# =============================================================================================
U_PROGRAMS = [
    ("uint-int-params", "export function f(int a, uint u, float x) -> int { int r = a; uint w = u; r = r + 1; w = w + 2; return r * 100 + w; }"),
    ("cast-negative-float-both", "function ti(int p) -> int { return p; }\nfunction tu(uint p) -> uint { return p; }\nexport function f(int a, uint u, float x) -> int { return ti(x) * 1000 + tu(x); }"),
    ("uint-arith", "export function f(int a, uint u, float x) -> uint { uint w = u * 3; w = w / 2; return w + u; }"),
    ("int-uint-mixed-arith", "export function f(int a, uint u, float x) -> int { return a + u; }"),
    ("uint-compare", "export function f(int a, uint u, float x) -> int { if (u > 2) { return 1; } return a < u; }"),
    ("uint-vector", "export function f(int a, uint u, float x) -> uint3 { uint3 v = uint3(u, u + 1, 7); int3 w = int3(a, a, a); v[1] = u; return v; }"),
    ("uint-index", "export function f(int a, uint u, float x) -> int { int[4] arr; arr[u] = 5; arr[a] = arr[a] + 2; return arr[u] + arr[0]; }"),
    ("uint-loop", "export function f(int a, uint u, float x) -> int { int t = 0; for (uint i = 0; i < u; ++i) { t = t + a; } return t; }"),
    ("uint-struct-array", "struct SU { uint n; int m; float w; }\nexport function f(int a, uint u, float x) -> int { SU s; s.n = u; s.m = a; uint[2] ua; ua[1] = u; return s.n + s.m + ua[1]; }"),
    ("uint-global", "uint gu;\nint gi;\nexport function f(int a, uint u, float x) -> int { gu = gu + u; gi = gi - a; return gu + gi; }"),
    ("float-to-uint-and-int-ctor", "export function f(int a, uint u, float x) -> int { int i = int(x); uint w = uint(x); return i * 100 + w; }"),
    ("only-uint", "export function f(uint u) -> uint { uint w = u + 1; return w * w; }"),
    ("only-int", "export function f(int a) -> int { int w = a + 1; return w * w; }"),
]


@family("U")
def fam_U(tier):
    for name, src in U_PROGRAMS:
        import re
        m = re.search(r"export function f\(([^)]*)\)", src)
        params = [tuple(p.strip().split()) for p in m.group(1).split(",") if p.strip()]
        inputs = []
        for a, u, x in ((1, 3, -1.5), (0, 1, 2.0), (2, 0, 0.0)):
            vals = {"a": a, "u": u, "x": x}
            globs = {"gu": 4, "gi": 9} if "uint gu;" in src else {}
            inputs.append(({n: vals[n] for t, n in params}, globs))
        yield {"fam": "U", "desc": f"int-uint-mix;{name}", "src": src + "\n", "units": [{"funcs": [], "entry": "f", "inputs": inputs}]}
    # conversions between int and uint at the sign edge: negative ints, uints with the top bit set (no arithmetic that could overflow)
    edge = [(7, 3), (-7, 3), (7, 0xFFFFFFFF), (-1, 0x80000000), (-2147483648, 1), (0, 0x7FFFFFFF)]
    for name, rt, e in (("uint(a)/u", "uint", "uint(a) / u"), ("a/u", "int", "a / u"), ("u/a", "int", "u / a"), ("a<u", "int", "a < u"), ("a>u", "int", "a > u"), ("u<a", "int", "u < a"),
                        ("a==u", "int", "a == u"), ("uint(a)<u", "int", "uint(a) < u"), ("int(u)<a", "int", "int(u) < a"), ("int(u)/a", "int", "int(u) / a"), ("uint(a)", "uint", "uint(a)"),
                        ("int(u)", "int", "int(u)"), ("u%a", "int", "u % a"), ("a%u", "int", "a % u"), ("u-returned-as-int", "int", "u"), ("a-returned-as-uint", "uint", "a"),
                        ("u-stored-to-int-parameter", "int", "a = u; return a / 2"), ("a-stored-to-uint-parameter", "uint", "u = a; return u / 2"),
                        ("u-stored-to-int-local", "int", "int si = u; return si / 2"), ("a-stored-to-uint-local", "uint", "uint su = a; return su / 2")):
        src = f"export function f(int a, uint u) -> {rt} {{ " + (e if "return" in e else "return " + e) + "; }\n"
        yield {"fam": "U", "desc": f"int-uint-edge;{name}", "src": src, "units": [{"funcs": [], "entry": "f", "inputs": [({"a": a, "u": u}, {}) for a, u in edge if not (a == 0 and ("/ a" in e or "% a" in e))]}]}


# =============================================================================================
# G: grammar forms of the scalar core that the tree families do not spell (C01)
# =============================================================================================
def SP(t, v, text):
    return ("lit", t, v, text)


def g_cases():
    T = lambda e: ASG(V("t"), B("%", B("+", B("*", V("t"), lit(31)), e), lit(MOD)))
    out = []

    def add(name, body, ret="int", rete=None, inputs=((0, 1), (2, 5), (-3, 2))):
        full = [("decl", "int", "t", lit(1))] + body + [("ret", rete if rete is not None else V("t"))]
        f = func("f", [("int", "a"), ("int", "b")], ret, full)
        out.append({"fam": "G", "desc": f"form={name}", "units": [{"funcs": [f], "entry": "f", "inputs": [({"a": x, "b": y}, {}) for x, y in inputs]}]})

    # literal spellings
    for text, v in (("0x1F", 31), ("0X1f", 31), ("0x0", 0), ("017", 15), ("00", 0), ("0", 0), ("123", 123), ("-7", -7), ("+7", 7)):
        add(f"int-literal:{text}", [T(B("+", V("a"), SP("int", v, text)))])
        add(f"int-literal-first:{text}", [T(B("-", SP("int", v, text), V("a")))])
    for text, v in (("1.", 1.0), (".5", 0.5), ("0.5", 0.5), ("1e2", 100.0), ("1.5e1", 15.0), ("2.5f", 2.5), ("25e-2", 0.25), ("1.0E0", 1.0)):
        add(f"float-literal:{text}", [], "float", B("+", B("*", V("a"), SP("float", v, text)), SP("float", v, text)))
    add("array-index-hex", [("decl", ("arr", "int", (3,)), "ar", None), ASG(IDX(V("ar"), SP("int", 2, "0x2")), lit(9)), T(IDX(V("ar"), SP("int", 2, "02")))])
    # signed literals next to operators
    for name, e in (("minus-negative", B("-", V("a"), lit(-3))), ("plus-negative", B("+", V("a"), lit(-3))), ("times-negative", B("*", V("a"), lit(-2))),
                    ("negative-first", B("+", lit(-3), V("a"))), ("compare-negative", B("<", V("a"), lit(-1))), ("positive-signed", B("-", V("a"), SP("int", 4, "+4")))):
        add(f"signed-literal:{name}", [T(e)])
    # operations on literals only (whatever folds them must fold like the VM computes them)
    for name, e in (("neg-div-pos", B("/", lit(-7), lit(2))), ("pos-div-neg", B("/", lit(7), lit(-2))), ("neg-div-neg", B("/", lit(-9), lit(-4))), ("difference-div", B("/", B("-", lit(1), lit(8)), lit(2))),
                    ("product-div", B("/", B("*", lit(-3), lit(5)), lit(4))), ("div-then-mul", B("*", B("/", lit(-7), lit(2)), lit(2))), ("pos-div-pos", B("/", lit(9), lit(4))),
                    ("float-div", B("/", lit(7.0), lit(-2))), ("mixed-sum", B("+", B("/", lit(-7), lit(2)), lit(0.5))), ("mod-pos", B("%", lit(9), lit(4))), ("compare-folded", B("<", B("/", lit(-7), lit(2)), lit(-3)))):
        add(f"literal-operation:{name}", [T(B("+", e, V("a")))] if name not in ("float-div", "mixed-sum") else [], "int" if name not in ("float-div", "mixed-sum") else "float",
            None if name not in ("float-div", "mixed-sum") else B("+", e, V("a")))
    # for-header variants
    inc = ASG(V("i"), B("+", V("i"), lit(1)))
    add("for-no-init", [("decl", "int", "i", lit(0)), ("for", None, B("<", V("i"), lit(3)), ("pre", "++", "i"), ("block", [T(V("i"))]))])
    add("for-no-next", [("for", ("decl", "int", "i", lit(0)), B("<", V("i"), lit(3)), None, ("block", [T(V("i")), inc]))])
    add("for-no-cond", [("for", ("decl", "int", "i", lit(0)), None, ("pre", "++", "i"), ("block", [("if", B(">", V("i"), lit(2)), ("block", [("break",)]), None), T(V("i"))]))])
    add("for-empty-header", [("decl", "int", "i", lit(0)), ("for", None, None, None, ("block", [inc, ("if", B(">", V("i"), lit(3)), ("block", [("break",)]), None), T(V("i"))]))])
    for name, nxt in (("post-inc", ("post", "++", "i")), ("pre-inc", ("pre", "++", "i")), ("plus-assign", ("asg", "+=", V("i"), lit(1))), ("assign", ("asg", "=", V("i"), B("+", V("i"), lit(1)))),
                      ("post-dec", ("post", "--", "i"))):
        if name == "post-dec":
            add(f"for-next:{name}", [("for", ("decl", "int", "i", lit(3)), B(">", V("i"), lit(0)), nxt, ("block", [T(V("i"))]))])
        else:
            add(f"for-next:{name}", [("for", ("decl", "int", "i", lit(0)), B("<", V("i"), lit(3)), nxt, ("block", [T(V("i"))]))])
    add("for-continue-runs-next", [("for", ("decl", "int", "i", lit(0)), B("<", V("i"), lit(4)), ("pre", "++", "i"), ("block", [("if", B("==", V("i"), lit(1)), ("block", [("continue",)]), None), T(V("i"))]))])
    # unbraced bodies
    add("unbraced-if-else-chain", [("if", B(">", V("a"), lit(0)), T(lit(1)), ("if", B("<", V("a"), lit(0)), T(lit(2)), T(lit(3))))])
    add("unbraced-for", [("for", ("decl", "int", "i", lit(0)), B("<", V("i"), lit(3)), ("pre", "++", "i"), T(V("i")))])
    add("unbraced-while", [("decl", "int", "i", lit(0)), ("while", B("<", V("i"), lit(3)), ASG(V("i"), B("+", V("i"), lit(1)))), T(V("i"))])
    add("unbraced-nested", [("for", ("decl", "int", "i", lit(0)), B("<", V("i"), lit(2)), ("pre", "++", "i"),
                             ("for", ("decl", "int", "j", lit(0)), B("<", V("j"), lit(2)), ("pre", "++", "j"), ("if", B("!=", V("i"), V("j")), T(B("+", B("*", V("i"), lit(2)), V("j"))), None)))])
    add("unbraced-if-return", [("if", B(">", V("a"), lit(1)), ("ret", lit(77)), None), T(V("a"))])
    add("while-empty-body", [("while", B("<", V("a"), lit(-50)), ("empty",)), T(V("a"))])
    add("nested-and-empty-blocks", [("block", [("block", [T(lit(1))]), ("block", [])]), ("block", []), T(lit(2))])
    add("expression-statement-without-effect", [("expr", B("+", V("a"), lit(1))), ("expr", V("a")), T(V("a"))])
    add("early-return-in-loop", [("for", ("decl", "int", "i", lit(0)), B("<", V("i"), lit(5)), ("pre", "++", "i"), ("block", [T(V("i")), ("if", B("==", V("i"), V("a")), ("block", [("ret", B("+", V("t"), lit(1000)))]), None)]))])
    add("do-while-once", [("decl", "int", "i", lit(9)), ("do", ("block", [T(V("i"))]), B("<", V("i"), lit(0)))])
    # comparison chains / mixed precedence with compound assignment
    add("comparison-chain", [T(B("==", B("<", V("a"), V("b")), lit(1))), T(B("<", B("<", V("a"), V("b")), lit(1)))])
    add("compound-rhs-is-whole-expression", [ASG(V("t"), B("+", V("a"), lit(1)), "*="), ASG(V("t"), B("-", V("a"), V("b")), "-="), ASG(V("t"), B("*", lit(2), lit(3)), "+=")])
    add("logical-mix", [T(B("||", B("&&", V("a"), V("b")), B("==", V("a"), lit(0)))), T(B("&&", B("||", V("a"), V("b")), B("!=", V("b"), lit(5))))])
    add("modulo-and-division-chain", [T(B("%", B("/", B("*", B("+", V("b"), lit(7)), lit(9)), lit(2)), lit(5)))])
    return out


@family("G")
def fam_G(tier):
    yield from g_cases()


# WU: modules using the same sign-dependent operation on unsigned and on signed operands (both orders), and on
#     int and float operands: per-module generator state keyed too coarsely shows only with both in ONE module
@family("WU")
def fam_WU(tier):
    ops = [("/", None), ("<", "int"), (">", "int"), ("==", "int"), ("+", None), ("*", None)]
    kinds = [("uint", "u"), ("int", "i"), ("float", "f")]
    for op, rt in ops:
        for (t1, n1), (t2, n2) in itertools.permutations(kinds, 2):
            r1 = rt or t1
            r2 = rt or t2
            src = (f"export function first({t1} a, {t1} b) -> {r1} {{ return a {op} b; }}\n"
                   f"export function second({t2} a, {t2} b) -> {r2} {{ return a {op} b; }}\n")
            vals = {"uint": [(7, 2), (3, 5)], "int": [(-7, 2), (7, -2), (-3, -5)], "float": [(-1.5, 0.5), (2.0, 4.0)]}
            units = [{"funcs": [], "entry": "first", "inputs": [({"a": a, "b": b}, {}) for a, b in vals[t1]]},
                     {"funcs": [], "entry": "second", "inputs": [({"a": a, "b": b}, {}) for a, b in vals[t2]]}]
            yield {"fam": "WU", "desc": f"two-kinds;op={op};{t1}-then-{t2}", "src": src, "units": units}


# =============================================================================================
# CG: globals written by a callee and read by the caller before / after the call (C02, C05, C14, C17; C15 has its own driver)
# =============================================================================================
@family("CG")
def fam_CG(tier):
    for T, e1, bump, zero in (("int", "a + 1", "g = g + 10;", "0"), ("float", "a * 0.5", "g = g + 10.0;", "0.0"), ("float4", "w * 2.0", "g.x = g.x + 10.0;", None), ("int[2]", None, "g[1] = g[1] + 10;", None)):
        for shape in ("store-call-load", "load-call-load", "store-call-store-load", "call-in-loop", "call-in-branch", "two-calls"):
            if T == "int[2]":
                rd, wr, RT = "g[1]", "g[1] = a;", "int"
            elif T == "float4":
                rd, wr, RT = "g.x", f"g = {e1};", "float"
            else:
                rd, wr, RT = "g", f"g = {e1};", T
            body = {
                "store-call-load": f"{wr} touch(); return {rd};",
                "load-call-load": f"{RT} before = {rd}; touch(); return before * 100 + {rd};",
                "store-call-store-load": f"{wr} touch(); {rd} = {rd} + 1; return {rd};",
                "call-in-loop": f"{wr} for (int k = 0; k < 2; ++k) {{ touch(); {rd} = {rd} + 1; }} return {rd};",
                "call-in-branch": f"{wr} if (a > 0) {{ touch(); }} return {rd};",
                "two-calls": f"{wr} touch(); {RT} mid = {rd}; touch(); return mid * 100 + {rd};",
            }[shape]
            src = f"{T} g;\nfunction touch() -> void {{ {bump} }}\nexport function f(int a, float4 w) -> {RT} {{ {body} }}\n"
            init = {"int": 1, "float": 0.5, "float4": [1.0, 2.0, 3.0, 4.0], "int[2]": [1, 2]}[T]
            import copy
            inputs = [({"a": a, "w": [0.5, 1.5, 2.5, 3.5]}, {"g": copy.deepcopy(init)}) for a in (2, 0)]
            yield {"fam": "CG", "desc": f"global-through-call;{shape};{T}", "src": src, "units": [{"funcs": [], "entry": "f", "inputs": inputs}]}


# =============================================================================================
# H: function bodies whose FIRST statement is each statement kind (block / instruction index 0 edge cases)
# =============================================================================================
@family("H")
def fam_H(tier):
    firsts = [
        ("while", "while (a < 3) { a = a + 1; } return a;"), ("do", "do { a = a + 1; } while (a < 3) return a;"),
        ("for", "for (int i = 0; i < 3; ++i) { a = a + i; } return a;"), ("if", "if (a > 1) { return 5; } return a;"),
        ("if-else", "if (a > 1) { a = 7; } else { a = 9; } return a;"), ("block", "{ a = a + 2; } return a;"), ("return", "return a + 1;"),
        ("expression", "a = a * 2; return a;"), ("declaration", "int v = a; return v + 1;"), ("nested-loops", "while (a < 4) { do { a = a + 1; } while (a < 2) } return a;"),
        ("while-with-break", "while (a < 9) { a = a + 1; if (a > 2) { break; } } return a;"), ("do-with-continue", "do { a = a + 1; if (a < 2) { continue; } a = a + 10; } while (a < 5) return a;"),
        ("empty-while", "while (a < 0); return a;"), ("call", "g(a); return a;"), ("affix", "++a; return a;"),
    ]
    for name, body in firsts:
        for second in (False, True):
            helper = "function g(int p) -> int { while (p < 2) { p = p + 1; } return p; }\n"
            extra = "export function h(int a) -> int { do { a = a + 2; } while (a < 4) return a; }\n" if second else ""
            src = helper + f"export function f(int a) -> int {{ {body} }}\n" + extra
            units = [{"funcs": [], "entry": "f", "inputs": [({"a": v}, {}) for v in (0, 1, 2, 5)]}]
            if second:
                units.append({"funcs": [], "entry": "h", "inputs": [({"a": v}, {}) for v in (0, 3)]})
            yield {"fam": "H", "desc": f"first-statement={name}" + (";second-function" if second else ""), "src": src, "units": units}


# =============================================================================================
# DF: declaration and statement forms of the grammar that no other family spells (C02, C05, C14, C17): whatever the front end
#     lets through has to survive lowering, both optimisation levels, a store/load round trip and execution
# =============================================================================================
DF_SOURCES = [
    # (name, source, arguments of f, globals)
    ("prototype-and-call", "function g(int p) -> int;\nexport function f(int a) -> int { return g(a) + 1; }\n", {"a": 3}, {}),
    ("prototype-not-called", "function g(int p) -> int;\nexport function f(int a) -> int { return a + 1; }\n", {"a": 3}, {}),
    ("prototype-exported", "export function g(int p) -> int;\nexport function f(int a) -> int { return a + 1; }\n", {"a": 3}, {}),
    ("prototype-then-definition", "function g(int p) -> int;\nexport function f(int a) -> int { return g(a) + 1; }\nfunction g(int p) -> int { return p * 2; }\n", {"a": 3}, {}),
    ("definition-then-prototype", "function g(int p) -> int { return p * 2; }\nfunction g(int p) -> int;\nexport function f(int a) -> int { return g(a) + 1; }\n", {"a": 3}, {}),
    ("prototype-last", "export function f(int a) -> int { return a + 1; }\nfunction g(int p) -> int;\n", {"a": 3}, {}),
    ("unnamed-parameter", "function g(int, int q) -> int { return q * 2; }\nexport function f(int a) -> int { return g(a, a + 1); }\n", {"a": 3}, {}),
    ("unnamed-parameters-only", "function g(int, float) -> int { return 4; }\nexport function f(int a) -> int { return g(a, 1.5) + a; }\n", {"a": 3}, {}),
    ("optional-parameter", "function g(int p, __optional int q) -> int { return p * 2; }\nexport function f(int a) -> int { return g(a) + g(a, 1); }\n", {"a": 3}, {}),
    ("struct-annotation", "[packed] struct S { int x; }\nexport function f(int a) -> int { S s; s.x = a; return s.x; }\n", {"a": 3}, {}),
    ("struct-two-annotations", "[packed][aligned] struct S { int x; float y; }\nexport function f(int a) -> int { S s; s.x = a; return s.x; }\n", {"a": 3}, {}),
    ("matrix3x3-keyword", "export function f(matrix3x3 m, int a) -> float { matrix3x3 n = m * m; return n[1][a]; }\n", {"m": [[1.0, 2.0, 3.0], [4.0, 5.0, 6.0], [7.0, 8.0, 9.5]], "a": 2}, {}),
    ("matrix4x4-keyword", "export function f(matrix4x4 m, int a) -> float { matrix4x4 n = m * m; return n[3][a]; }\n", {"m": [[1.0, 2.0, 3.0, 4.0]] * 4, "a": 2}, {}),
    ("float4x4-keyword", "export function f(float4x4 m, int a) -> float { float4 r = m[a]; return r.w; }\n", {"m": [[1.0, 2.0, 3.0, 4.0]] * 4, "a": 2}, {}),
    ("uint-vectors", "export function f(uint2 v, uint3 w, uint4 q) -> uint { return v.x + v.y + w.z + q.w; }\n", {"v": [3, 4], "w": [1, 2, 3], "q": [5, 6, 7, 8]}, {}),
    ("int-vectors", "export function f(int2 v, int3 w, int4 q) -> int { int3 t = w * 2; return v.x - v.y + t.z + q[3]; }\n", {"v": [3, 4], "w": [1, 2, 3], "q": [5, 6, 7, 8]}, {}),
    ("void-function-early-return", "int g;\nfunction s(int a) -> void { if (a > 1) { return; } g = a; }\nexport function f(int a) -> int { s(a); return g; }\n", {"a": 3}, {"g": 9}),
    ("void-function-early-return-not-taken", "int g;\nfunction s(int a) -> void { if (a > 5) { return; } g = a; }\nexport function f(int a) -> int { s(a); return g; }\n", {"a": 3}, {"g": 9}),
    ("empty-struct", "struct E { }\nexport function f(int a) -> int { E e; return a; }\n", {"a": 3}, {}),
    ("empty-function-body", "function n() -> void { }\nexport function f(int a) -> int { n(); return a; }\n", {"a": 3}, {}),
    ("function-without-parameters", "function n() -> int { return 4; }\nexport function f() -> int { return n() + n(); }\n", {}, {}),
    ("global-with-initialiser", "int g = 5;\nexport function f(int a) -> int { return a + g; }\n", {"a": 3}, {"g": 9}),
    ("struct-in-struct", "struct A { int x; }\nstruct B { A a; int y; }\nexport function f(int v) -> int { B b; b.a.x = v; b.y = 2; return b.a.x + b.y; }\n", {"v": 3}, {}),
    ("struct-with-array-of-struct", "struct A { int x; }\nstruct B { A[2] as; }\nexport function f(int a) -> int { B b; b.as[1].x = a; return b.as[1].x + b.as[0].x; }\n", {"a": 3}, {}),
    ("global-array-of-struct", "struct A { int x; }\nA[2] ga;\nexport function f(int a) -> int { ga[1].x = a; return ga[1].x + ga[0].x; }\n", {"a": 3}, {"ga": [{"x": 1}, {"x": 2}]}),
    ("struct-declared-after-use", "struct B { A a; int y; }\nstruct A { int x; }\nexport function f(int a) -> int { B b; b.a.x = a; return b.a.x; }\n", {"a": 3}, {}),
    ("struct-containing-itself", "struct A { A a; int x; }\nexport function f(int a) -> int { A b; b.x = a; return b.x; }\n", {"a": 3}, {}),
    ("function-named-like-struct", "struct A { int x; }\nfunction A(int p) -> int { return p; }\nexport function f(int a) -> int { return A(a); }\n", {"a": 3}, {}),
    ("variable-named-like-function", "function g(int p) -> int { return p; }\nexport function f(int a) -> int { int g = 2; return g + g(a); }\n", {"a": 3}, {}),
    ("variable-named-like-type", "struct A { int x; }\nexport function f(int a) -> int { int A = 2; return A + a; }\n", {"a": 3}, {}),
    ("function-returns-struct", "struct A { int x; float y; }\nfunction mk(int v) -> A { A r; r.x = v; return r; }\nexport function f(int a) -> int { A q = mk(a); return q.x; }\n", {"a": 3}, {}),
    ("function-returns-array", "function mk(int v) -> int[2] { int[2] r; r[1] = v; return r; }\nexport function f(int a) -> int { int[2] q = mk(a); return q[1] + q[0]; }\n", {"a": 3}, {}),
    ("function-returns-matrix", "function mk(float v) -> float3x3 { float3x3 r; r[1][1] = v; return r; }\nexport function f(int a) -> float { float3x3 q = mk(1.5) * 2.0; return q[1][a]; }\n", {"a": 1}, {}),
    ("value-returned-from-void-function", "function n(int a) -> void { return 1; }\nexport function f(int a) -> int { n(a); return a; }\n", {"a": 3}, {}),
    ("bare-return-in-int-function", "export function f(int a) -> int { if (a > 5) { return; } return a; }\n", {"a": 3}, {}),
    ("missing-return", "export function f(int a) -> int { a = a + 1; }\n", {"a": 3}, {}),
    ("missing-return-on-one-path", "export function f(int a) -> int { if (a > 5) { return 1; } }\n", {"a": 3}, {}),
    ("void-call-in-expression", "function n() -> void { }\nexport function f(int a) -> int { return a + n(); }\n", {"a": 3}, {}),
    ("void-call-initialises-variable", "function n() -> void { }\nexport function f(int a) -> int { int v = n(); return a; }\n", {"a": 3}, {}),
    ("void-variable", "export function f(int a) -> int { void v; return a; }\n", {"a": 3}, {}),
    ("void-array", "export function f(int a) -> int { void[2] v; return a; }\n", {"a": 3}, {}),
    ("array-of-size-zero", "export function f(int a) -> int { int[0] v; return a; }\n", {"a": 3}, {}),
    ("unknown-type", "export function f(int a) -> int { Foo v; return a; }\n", {"a": 3}, {}),
    ("unknown-return-type", "export function f(int a) -> Foo { return a; }\n", {"a": 3}, {}),
    ("unknown-field", "struct A { int x; }\nA ga;\nexport function f(int a) -> int { return ga.y; }\n", {"a": 3}, {"ga": {"x": 1}}),
    ("struct-argument", "struct A { int x; }\nfunction g(A p) -> int { p.x = p.x + 1; return p.x; }\nexport function f(int a) -> int { A q; q.x = a; return g(q) * 10 + q.x; }\n", {"a": 3}, {}),
    ("struct-compared", "struct A { int x; }\nexport function f(int a) -> int { A q; A r; return q == r; }\n", {"a": 3}, {}),
    ("struct-added", "struct A { int x; }\nexport function f(int a) -> int { A q; A r; q = q + r; return a; }\n", {"a": 3}, {}),
    ("array-added", "export function f(int a) -> int { int[2] q; int[2] r; q = q + r; return a; }\n", {"a": 3}, {}),
    ("vector-as-condition", "export function f(float4 w) -> int { if (w) { return 1; } return 2; }\n", {"w": [0.0, 0.0, 0.0, 0.0]}, {}),
    ("float-as-loop-condition", "export function f(float x) -> int { int n = 0; while (x) { x = x - 1.0; n = n + 1; } return n; }\n", {"x": 2.0}, {}),
    ("increment-of-global", "int g;\nexport function f(int a) -> int { ++g; g++; return g; }\n", {"a": 3}, {"g": 9}),
    ("increment-of-float-parameter", "export function f(float x) -> float { ++x; x--; ++x; return x; }\n", {"x": 2.5}, {}),
    ("compound-on-element", "export function f(int a) -> int { int[2] q; q[1] += a; q[1] *= 3; q[0] -= 1; return q[1] * 10 + q[0]; }\n", {"a": 3}, {}),
    ("compound-on-field", "struct A { int x; float y; }\nexport function f(int a) -> float { A q; q.x += a; q.y += 1.5; q.y *= 2.0; return q.y + q.x; }\n", {"a": 3}, {}),
    ("compound-on-swizzle", "export function f(float4 w) -> float4 { w.xy += float2(1.0, 2.0); w.z *= 2.0; return w; }\n", {"w": [1.0, 2.0, 3.0, 4.0]}, {}),
    ("compound-divide-vector", "export function f(float4 w) -> float4 { w /= 2.0; w -= w; return w; }\n", {"w": [1.0, 2.0, 3.0, 4.0]}, {}),
    ("assignment-to-literal", "export function f(int a) -> int { 3 = a; return a; }\n", {"a": 3}, {}),
    ("assignment-to-call", "function g(int p) -> int { return p; }\nexport function f(int a) -> int { g(a) = 3; return a; }\n", {"a": 3}, {}),
    ("chained-assignment", "export function f(int a) -> int { int b; int c; b = c = a; return b * 10 + c; }\n", {"a": 3}, {}),
    ("assignment-as-condition", "export function f(int a) -> int { int b; if (b = a) { return b; } return 2; }\n", {"a": 3}, {}),
    ("assignment-as-argument", "function g(int p) -> int { return p * 2; }\nexport function f(int a) -> int { int b; int r = g(b = a + 1); return r * 10 + b; }\n", {"a": 3}, {}),
    ("call-as-statement-and-index", "function g(int p) -> int { return p - 1; }\nexport function f(int a) -> int { int[3] q; q[g(a)] = 7; g(a); return q[g(3)]; }\n", {"a": 3}, {}),
    ("overloads-with-different-parameter-names", "function scale(float s) -> float { return s * 2.0; }\nfunction scale(float3 v) -> float3 { return v * 2.0; }\nexport function f(float x) -> float { float3 w = scale(float3(x, x, x)); return scale(x) + w.y; }\n", {"x": 1.5}, {}),
    ("overloads-with-different-parameter-counts", "function pick(int a, int b) -> int { return a * 10 + b; }\nfunction pick(int b) -> int { return b + 1; }\nexport function f(int a) -> int { return pick(a, 2) * 100 + pick(a); }\n", {"a": 3}, {}),
    ("overloads-with-swapped-parameter-names", "function mixn(int a, float b) -> float { return a + b * 2.0; }\nfunction mixn(float b, int a) -> float { return b * 3.0 + a; }\nexport function f(int a) -> float { return mixn(a, 0.5) + mixn(0.5, a); }\n", {"a": 3}, {}),
    ("overload-declared-between-callers", "function w(int p) -> int { return p + 1; }\nfunction c1(int a) -> int { return w(a); }\nfunction w(float q, int r) -> int { return r * 2; }\nexport function f(int a) -> int { return c1(a) * 10 + w(0.5, a); }\n", {"a": 3}, {}),
    ("folded-casts-in-two-blocks", "export function f(int a, float x) -> float { float r = x * 2; if (a > 0) { r = r + 3; } return r; }\n", {"a": 1, "x": 5.0}, {}),
    ("folded-casts-in-three-blocks", "export function f(int a, float x) -> float { float r = x * 2; if (a > 0) { r = r + 3; } else { r = r - 5; } r = r * 7; return r; }\n", {"a": 1, "x": 5.0}, {}),
    ("folded-casts-in-loop-and-after", "export function f(int a, float x) -> float { float r = x + 1; for (int i = 0; i < 3; ++i) { r = r * 2 + 4; } return r / 8; }\n", {"a": 1, "x": 5.0}, {}),
    ("folded-casts-to-int-in-two-blocks", "export function f(int a, float x) -> int { int r = a + int(2.0); if (x > 1.0) { r = r * int(3.0); } return r - int(1.0); }\n", {"a": 4, "x": 5.0}, {}),
    ("folded-casts-same-value-in-two-blocks", "export function f(int a, float x) -> float { float r = x * 2; if (a > 0) { r = r + 2; } return r - 2; }\n", {"a": 1, "x": 5.0}, {}),
    ("loop-carried-local-stored-then-read", "export function f(int a) -> int { int total = 0; int prev = 1; for (int i = 0; i < a; ++i) { total = total + prev; prev = i + 1; total = prev + total; } return total; }\n", {"a": 3}, {}),
    ("declaration-from-variable-stored-at-the-end-of-a-loop-body", "export function f(int a) -> int { int acc = a; for (int i = 0; i < 3; ++i) { int t = acc; acc = t + t; } return acc; }\n", {"a": 3}, {}),
    ("declaration-from-variable-stored-at-the-end-of-an-if-body", "export function f(int a) -> int { int acc = a; if (a > 0) { int t = acc; int u = t; acc = u + 1; } return acc; }\n", {"a": 3}, {}),
    ("declaration-from-global-stored-at-the-end-of-a-void-function", "float g;\nfunction bump(float k) -> void { float t = g; g = t * k; }\nexport function f(float k) -> float { bump(k); bump(k); return g; }\n", {"k": 3.0}, {"g": 2.0}),
    ("declarations-then-load-then-store-in-do-body", "export function f(int a) -> int { int acc = 1; do { int s; int t = acc; acc = t * 2 + s; } while (acc < a) return acc; }\n", {"a": 20}, {}),
    ("declaration-from-parameter-stored-at-the-end", "function w(int p) -> void { int t = p; p = t + 1; }\nexport function f(int a) -> int { w(a); int t = a; a = t + t; return a; }\n", {"a": 3}, {}),
    ("import-of-nothing", "import \"does_not_exist\";\nexport function f(int a) -> int { return a; }\n", {"a": 3}, {}),
    ("only-declarations", "int g;\nstruct A { int x; }\n", None, {}),
    ("only-a-struct", "struct A { int x; }\n", None, {}),
    ("only-a-global", "float4 gq;\n", None, {}),
]


@family("DF")
def fam_DF(tier):
    for name, src, args, globs in DF_SOURCES:
        units = [] if args is None else [{"funcs": [], "entry": "f", "inputs": [(args, globs)]}]
        yield {"fam": "DF", "desc": f"form={name}", "src": src, "units": units or [{"funcs": [], "entry": "f", "inputs": []}]}
