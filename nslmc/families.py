"""Bounded-exhaustive program families (DESIGN.md section 4).  generate(name, tier) yields cases
in a fixed order; every member of the stated space is produced exactly once."""
import itertools

from . import lang
from .lang import BINOPS, CMPOPS, func, lit

REGISTRY = {}


def family(name):
    def deco(fn):
        REGISTRY[name] = fn
        return fn
    return deco


def generate(name, tier, shard=0, nshards=1):
    """Yield the cases of shard `shard` (seed index % nshards == shard).  A family function yields
    cheap *seeds* (build_function, args...); the case is only built for the seeds of this shard."""
    for i, seed in enumerate(REGISTRY[name](tier)):
        if i % nshards == shard:
            if isinstance(seed, dict):
                yield seed
            else:
                yield seed[0](*seed[1:])


def stype(e, tenv):
    """Static type of a scalar expression (C09 scalar rules)."""
    k = e[0]
    if k == "lit":
        return e[1]
    if k == "var":
        return tenv[e[1]]
    if k == "bin":
        if e[1] in CMPOPS:
            return "int"
        a, b = stype(e[2], tenv), stype(e[3], tenv)
        return "float" if "float" in (a, b) else "int" if "int" in (a, b) else "uint"
    raise ValueError(e)


def used_vars(e, acc=None):
    acc = set() if acc is None else acc
    if e[0] == "var":
        acc.add(e[1])
    elif e[0] == "bin":
        used_vars(e[2], acc)
        used_vars(e[3], acc)
    return acc


def ops_of(e, acc=None):
    acc = [] if acc is None else acc
    if e[0] == "bin":
        acc.append(e[1])
        ops_of(e[2], acc)
        ops_of(e[3], acc)
    return acc


# =============================================================================================
# E: scalar expression trees
# =============================================================================================
E_PARAMS = [("int", "a"), ("int", "b"), ("float", "x")]
E_TENV = {"a": "int", "b": "int", "x": "float"}
E_LEAVES = [("var", "a"), ("var", "b"), ("var", "x"), lit(2), lit(0.5), lit(-3)]
E_LEAVES_SMALL = [("var", "a"), ("var", "x"), lit(2)]
A_VALUES = {"quick": (-7, -2, 0, 1, 3), "thorough": (-7, -2, -1, 0, 1, 2, 3, 7)}
X_VALUES = {"quick": (-0.5, 0.0, 2.0), "thorough": (-1.5, -0.5, 0.0, 0.5, 2.0, 3.0)}


def expr_trees(n, leaves):
    """All binary expression trees with exactly n operators."""
    if n == 0:
        for l in leaves:
            yield l
        return
    for k in range(n):
        for op in BINOPS:
            for l in expr_trees(k, leaves):
                for r in expr_trees(n - 1 - k, leaves):
                    yield ("bin", op, l, r)


def e_inputs(e, tier):
    used = sorted(used_vars(e))
    doms = []
    for v in used:
        doms.append(X_VALUES[tier] if v == "x" else A_VALUES[tier])
    out = []
    for vals in itertools.product(*doms):
        args = {"a": 1, "b": 1, "x": 1.0}
        args.update(dict(zip(used, vals)))
        out.append((args, {}))
    return out


def _e_pack(fam, tier, mode, trees):
    units = []
    for e in trees:
        t = stype(e, E_TENV)
        name = f"f{len(units)}"
        ops = ops_of(e)
        units.append({"funcs": [func(name, E_PARAMS, t, [("ret", e)])], "entry": name, "inputs": e_inputs(e, tier),
                      "desc": "ops=" + ",".join(sorted(set(ops))) + ";operands=" + "".join(sorted({stype(x, E_TENV)[0] for x in _leaves(e)}))})
    return {"fam": fam, "desc": "pack", "units": units, "mode": mode}


def _e_cases(trees, tier, fam, pack=24):
    for mode in ("min", "full"):
        buf = []
        for e in trees():
            if mode == "full" and not (e[0] == "bin" and (e[2][0] == "bin" or e[3][0] == "bin")):
                continue  # identical text to the minimal rendering
            buf.append(e)
            if len(buf) == pack:
                yield (_e_pack, fam, tier, mode, buf)
                buf = []
        if buf:
            yield (_e_pack, fam, tier, mode, buf)


def _leaves(e):
    if e[0] == "bin":
        return _leaves(e[2]) + _leaves(e[3])
    return [e]


@family("E")
def fam_E(tier):
    def trees():
        for n in (0, 1, 2):
            yield from expr_trees(n, E_LEAVES)
        if tier == "thorough":
            yield from expr_trees(3, E_LEAVES_SMALL)
    return _e_cases(trees, tier, "E")


@family("E1")
def fam_E1(tier):
    """Reduced expression family for the differential / structural checks' quick tier."""
    def trees():
        for n in (0, 1):
            yield from expr_trees(n, E_LEAVES)
        yield from expr_trees(2, E_LEAVES_SMALL)
    return _e_cases(trees, tier, "E1")


# =============================================================================================
# S: control flow statement trees with a trace variable
# =============================================================================================
MOD = 65521


def atom(k):
    # t = (t * 31 + k) % 65521
    return ("expr", ("asg", "=", ("var", "t"), ("bin", "%", ("bin", "+", ("bin", "*", ("var", "t"), lit(31)), lit(k)), lit(MOD))))


def compositions(n, kmin, kmax):
    """Ordered tuples of positive ints summing to n with kmin..kmax parts."""
    def rec(rest, parts):
        if len(parts) >= kmin and rest == 0:
            yield tuple(parts)
        if len(parts) < kmax:
            for a in range(1, rest + 1):
                yield from rec(rest - a, parts + [a])
    yield from rec(n, [])


def stmt_skeletons(n, in_loop, allow_block=True):
    """All statement skeletons of exactly n nodes.  Leaves: 'A' atom, 'B' break, 'C' continue, 'R' return."""
    if n == 1:
        yield ("A",)
        yield ("R",)
        if in_loop:
            yield ("B",)
            yield ("C",)
        return
    # if / loops with one body
    for body in stmt_skeletons(n - 1, in_loop):
        yield ("if", body)
    for kind in ("for", "while", "do"):
        for body in stmt_skeletons(n - 1, True):
            yield (kind, body)
    # if/else
    for a in range(1, n - 1):
        for s1 in stmt_skeletons(a, in_loop):
            for s2 in stmt_skeletons(n - 1 - a, in_loop):
                yield ("ifelse", s1, s2)
    # blocks of 2..3 children (children are not blocks themselves)
    if allow_block:
        for parts in compositions(n, 2, 3):
            for kids in itertools.product(*[list(stmt_skeletons(p, in_loop, False)) for p in parts]):
                yield ("seq",) + kids


def count_skeletons(n):
    return sum(1 for _ in stmt_skeletons(n, False))


class _Build:
    """Turns a skeleton into miniast statements: numbers atoms, owns loop counters, picks conditions."""

    def __init__(self, variant):
        self.variant = variant
        self.atoms = 0
        self.loops = 0
        self.conds = 0
        self.feat = set()

    def cond(self, counters):
        i = (self.conds + self.variant) % 3
        self.conds += 1
        if i == 0:
            return ("bin", ">", ("var", "a"), lit(1))
        if i == 1:
            return ("bin", "==", ("bin", "%", ("var", "t"), lit(2)), lit(0))
        if counters:
            return ("bin", "<", ("var", counters[-1]), lit(1))
        return ("bin", "<", ("var", "a"), lit(2))

    def build(self, sk, counters):
        """-> list of statements (a loop may need a counter declaration in front of it)."""
        k = sk[0]
        if k == "A":
            self.atoms += 1
            return [atom(self.atoms)]
        if k == "R":
            self.feat.add("return")
            return [("ret", ("var", "t"))]
        if k == "B":
            self.feat.add("break")
            return [("break",)]
        if k == "C":
            self.feat.add("continue")
            return [("continue",)]
        if k == "seq":
            out = []
            for kid in sk[1:]:
                out += self.build(kid, counters)
            return [("block", out)]
        if k == "if":
            c = self.cond(counters)
            return [("if", c, ("block", self.build(sk[1], counters)), None)]
        if k == "ifelse":
            c = self.cond(counters)
            self.feat.add("else")
            return [("if", c, ("block", self.build(sk[1], counters)), ("block", self.build(sk[2], counters)))]
        self.loops += 1
        n = self.loops
        self.feat.add(k)
        if len(counters) >= 1:
            self.feat.add("nested")
        bound = 2 if counters else 3
        lv = (n + self.variant) % 3
        if k == "for":
            cn = f"i{n}"
            limit = ("bin", "<", ("var", cn), lit(bound)) if lv != 1 else ("bin", "&&", ("bin", "<", ("var", cn), ("var", "a")), ("bin", "<", ("var", cn), lit(bound)))
            body = self.build(sk[1], counters + [cn])
            return [("for", ("decl", "int", cn, lit(0)), limit, ("pre", "++", cn), ("block", body))]
        cn = f"w{n}"
        inc = ("expr", ("asg", "=", ("var", cn), ("bin", "+", ("var", cn), lit(1))))
        body = self.build(sk[1], counters + [cn])
        if lv == 1:
            limit = ("bin", "&&", ("bin", "<", ("var", cn), ("var", "a")), ("bin", "<", ("var", cn), lit(bound)))
        elif lv == 2:
            limit = ("bin", "&&", ("bin", "<", ("bin", "%", ("var", "t"), lit(7)), lit(6)), ("bin", "<", ("var", cn), lit(bound)))
        else:
            limit = ("bin", "<", ("var", cn), lit(bound))
        if k == "while":
            return [("decl", "int", cn, lit(0)), ("while", limit, ("block", [inc] + body))]
        return [("decl", "int", cn, lit(0)), ("do", ("block", [inc] + body), limit)]


def s_case(sk, variant, fam="S"):
    b = _Build(variant)
    body = [("decl", "int", "t", lit(1))] + b.build(sk, []) + [("ret", ("var", "t"))]
    f = func("f", [("int", "a")], "int", body)
    desc = "stmts=" + ",".join(sorted(b.feat)) if b.feat else "stmts=plain"
    return {"fam": fam, "desc": desc, "units": [{"funcs": [f], "entry": "f", "inputs": [({"a": v}, {}) for v in (0, 1, 2, 5)]}]}


def _has(sk, kinds):
    if sk[0] in kinds:
        return 1 + sum(_has(k, kinds) for k in sk[1:] if isinstance(k, tuple))
    return sum(_has(k, kinds) for k in sk[1:] if isinstance(k, tuple))


@family("S")
def fam_S(tier):
    top = 5 if tier == "quick" else 6
    for n in range(1, top + 1):
        for sk in stmt_skeletons(n, False):
            if _has(sk, ("for", "while", "do", "if", "ifelse")) == 0 and n > 2:
                continue
            if tier == "thorough":
                variants = (0, 1, 2) if n <= 5 else (n % 3,)
            else:
                variants = (0, 1, 2) if n <= 4 else (n % 3,)
            for variant in variants:
                yield (s_case, sk, variant)


# =============================================================================================
# D: storage locations x assignment forms, with read-back of every location in scope
# =============================================================================================
def V(n):
    return ("var", n)


def IDX(b, i):
    return ("idx", b, i if isinstance(i, tuple) else lit(i))


def FLD(b, f):
    return ("fld", b, f)


def B(op, l, r):
    return ("bin", op, l, r)


def ASG(lv, e, op="="):
    return ("expr", ("asg", op, lv, e))


def d_skeleton(T, shape):
    """Declarations, distinct initial values and the list of (selector expr) read-backs."""
    r0, r1 = shape
    num = (lambda k: lit(float(k))) if T == "float" else (lambda k: lit(k))
    structs = [("P", [(T, "fa"), (T, "hb")]), ("Q", [(("arr", T, (2,)), "arr"), (T, "k")])]
    globals_ = [(T, "g"), (("arr", T, (3,)), "ga"), (("struct", "P"), "gs"), (("arr", ("struct", "P"), (2,)), "gas")]
    decls = [("decl", T, "v", num(3)), ("decl", T, "r", num(0)), ("decl", ("arr", T, (3,)), "la", None),
             ("decl", ("arr", T, (r0, r1)), "m", None), ("decl", ("struct", "P"), "s", None),
             ("decl", ("struct", "Q"), "q", None)]
    locs = [V("v"), V("p"), V("r")]
    init = []
    k = 10

    def put(lv):
        nonlocal k
        init.append(ASG(lv, num(k)))
        locs.append(lv)
        k += 1

    for i in range(3):
        put(IDX(V("la"), i))
    for i in range(r0):
        for j in range(r1):
            put(IDX(IDX(V("m"), i), j))
    put(FLD(V("s"), "fa"))
    put(FLD(V("s"), "hb"))
    put(IDX(FLD(V("q"), "arr"), 0))
    put(IDX(FLD(V("q"), "arr"), 1))
    put(FLD(V("q"), "k"))
    return structs, globals_, decls + init, locs


def d_globals(T):
    c = (lambda k: float(k)) if T == "float" else (lambda k: k)
    return {"g": c(40), "ga": [c(41), c(42), c(43)], "gs": {"fa": c(44), "hb": c(45)},
            "gas": [{"fa": c(46), "hb": c(47)}, {"fa": c(48), "hb": c(49)}]}


def d_case(T, shape, write, desc, dyn):
    structs, globals_, setup, locs = d_skeleton(T, shape)
    zero = lit(0.0) if T == "float" else lit(0)
    readback = [("if", B("==", V("sel"), lit(n)), ("block", [("ret", lv)]), None) for n, lv in enumerate(locs)]
    body = setup + write + readback + [("ret", zero)]
    f = func("f", [("int", "sel"), ("int", "i"), ("int", "a"), ("float", "x"), (T, "p")], T, body)
    inputs = []
    pv = 7.0 if T == "float" else 7
    ivals = dyn if dyn else (0,)
    for i in ivals:
        for a, x in ((2, 1.5), (-3, 0.5)):
            for sel in range(len(locs)):
                inputs.append(({"sel": sel, "i": i, "a": a, "x": x, "p": pv}, d_globals(T)))
    return {"fam": "D", "desc": desc, "prog": {"structs": structs, "globals": globals_},
            "units": [{"funcs": [f], "entry": "f", "inputs": inputs}]}


def d_locations(shape):
    r0, r1 = shape
    I = V("i")
    return [
        ("local", V("v"), None), ("param", V("p"), None), ("global", V("g"), None),
        ("arr-const", IDX(V("la"), 1), None), ("arr-dyn", IDX(V("la"), I), (0, 2)),
        ("arr2-const", IDX(IDX(V("m"), r0 - 1), r1 - 1), None), ("arr2-dyn-outer", IDX(IDX(V("m"), I), 1), tuple(range(r0))),
        ("arr2-dyn-inner", IDX(IDX(V("m"), 1), I), tuple(range(r1))),
        ("field", FLD(V("s"), "fa"), None), ("garr-of-struct-const", FLD(IDX(V("gas"), 1), "hb"), None),
        ("garr-of-struct-dyn", FLD(IDX(V("gas"), I), "fa"), (0, 1)), ("struct-arr-const", IDX(FLD(V("q"), "arr"), 1), None),
        ("struct-arr-dyn", IDX(FLD(V("q"), "arr"), I), (0, 1)), ("struct-field-after-arr", FLD(V("q"), "k"), None),
        ("garr-const", IDX(V("ga"), 1), None), ("garr-dyn", IDX(V("ga"), I), (0, 2)), ("gfield", FLD(V("gs"), "hb"), None),
    ]


def d_rhs(T):
    if T == "int":
        return [("lit", lit(2)), ("var", V("a")), ("sum", B("+", V("a"), lit(1))), ("diff", B("-", V("a"), V("i")))]
    return [("lit", lit(1.5)), ("var", V("x")), ("prod", B("*", V("x"), lit(2))), ("intvar", V("a")), ("mixed", B("+", V("x"), V("a")))]


@family("D")
def fam_D(tier):
    shapes = [(2, 3), (3, 2), (2, 2)]
    for T in ("int", "float"):
        for si, shape in enumerate(shapes):
            for lname, lv, dyn in d_locations(shape):
                if si > 0 and not lname.startswith("arr2"):
                    continue
                for op in ("=", "+=", "-=", "*=", "/="):
                    for rname, rhs in d_rhs(T):
                        yield (d_case, T, shape, [ASG(lv, rhs, op)], f"loc={lname};form={op};type={T}", dyn)
        # ++/-- on plain variables, as statement and as the single side-effecting operand
        for lname in ("v", "p", "g"):
            for kind in ("pre", "post"):
                for op in ("++", "--"):
                    af = (kind, op, lname)
                    yield (d_case, T, shapes[0], [("expr", af)], f"loc={lname};form={kind}{op};type={T}", None)
                    yield (d_case, T, shapes[0], [ASG(V("r"), B("*", af, lit(2)))], f"loc={lname};form={kind}{op}-operand;type={T}", None)
                    yield (d_case, T, shapes[0], [ASG(V("r"), B("-", lit(5), af))], f"loc={lname};form={kind}{op}-operand;type={T}", None)
                    yield (d_case, T, shapes[0], [ASG(IDX(V("la"), 1), af)], f"loc={lname};form={kind}{op}-stored;type={T}", None)


# =============================================================================================
# R: declarations re-executed inside loops (zero-/re-initialisation, fresh aggregates)
# =============================================================================================
def r_case(kind, loop, place, pos):
    T = "float" if kind == "float" else "int"
    structs = [("P", [("int", "fa"), ("int", "hb")])]
    bump = lambda lv: ASG(lv, B("+", B("+", lv, V("n")), lit(1)))
    tr = lambda e: ASG(V("t"), B("%", B("+", B("*", V("t"), lit(31)), e), lit(MOD)))
    if kind == "int":
        decl, uses = ("decl", "int", "v", None), [bump(V("v")), tr(V("v"))]
    elif kind == "int-init":
        decl, uses = ("decl", "int", "v", lit(5)), [bump(V("v")), tr(V("v"))]
    elif kind == "float":
        decl, uses = ("decl", "float", "v", None), [bump(V("v")), ASG(V("u"), B("+", V("u"), V("v")))]
    elif kind == "array":
        decl, uses = ("decl", ("arr", "int", (2,)), "v", None), [bump(IDX(V("v"), 1)), tr(B("+", IDX(V("v"), 0), IDX(V("v"), 1)))]
    elif kind == "array2":
        decl = ("decl", ("arr", "int", (2, 2)), "v", None)
        uses = [bump(IDX(IDX(V("v"), 1), 0)), tr(B("+", B("+", IDX(IDX(V("v"), 0), 0), IDX(IDX(V("v"), 0), 1)), B("+", IDX(IDX(V("v"), 1), 0), IDX(IDX(V("v"), 1), 1))))]
    elif kind == "struct":
        decl, uses = ("decl", ("struct", "P"), "v", None), [bump(FLD(V("v"), "hb")), tr(B("+", FLD(V("v"), "fa"), FLD(V("v"), "hb")))]
    else:
        raise ValueError(kind)
    core = [decl] + uses if pos == "first" else [tr(lit(7)), decl] + uses
    if place == "body":
        inner = core
    elif place == "block":
        inner = [("block", core), tr(lit(3))]
    elif place == "if":
        inner = [("if", B("<", V("n"), lit(5)), ("block", core), None)]
    elif place == "nested":
        inner = [("for", ("decl", "int", "j", lit(0)), B("<", V("j"), lit(2)), ("pre", "++", "j"), ("block", core))]
    inc = ASG(V("n"), B("+", V("n"), lit(1)))
    if loop == "for":
        loopst = [("for", ("decl", "int", "k", lit(0)), B("<", V("k"), lit(3)), ("pre", "++", "k"), ("block", inner + [inc]))]
    elif loop == "while":
        loopst = [("while", B("<", V("n"), lit(3)), ("block", inner + [inc]))]
    else:
        loopst = [("do", ("block", inner + [inc]), B("<", V("n"), lit(3)))]
    body = [("decl", "int", "t", lit(1)), ("decl", "int", "n", lit(0)), ("decl", "float", "u", lit(0.0))] + loopst
    ret = "float" if kind == "float" else "int"
    body += [("ret", V("u") if kind == "float" else V("t"))]
    f = func("f", [("int", "a")], ret, body)
    return {"fam": "R", "desc": f"decl={kind};loop={loop};place={place}", "prog": {"structs": structs},
            "units": [{"funcs": [f], "entry": "f", "inputs": [({"a": 0}, {})]}]}


@family("R")
def fam_R(tier):
    for kind in ("int", "int-init", "float", "array", "array2", "struct"):
        for loop in ("for", "while", "do"):
            for place in ("body", "block", "if", "nested"):
                for pos in ("first", "middle"):
                    yield (r_case, kind, loop, place, pos)


# =============================================================================================
# O: store -> load context grid (optimiser: load-after-store forwarding, constant casts)
#    cases carry source text directly; used differentially (C02) and by the IR checker (C14)
# =============================================================================================
O_TYPES = {
    # name: (type text, expression over the parameters, second expression, param list entries)
    "int": ("int", "a + 1", "a - 2"),
    "float": ("float", "x * 2.0", "x + 0.5"),
    "float4": ("float4", "w4 * 2.0", "w4 + w4"),
    "float3": ("float3", "w3 * 2.0", "w3 + w3"),
    "float3x3": ("float3x3", "m3 * 2.0", "m3 + m3"),
    "P": ("P", "ps", "ps2"),
    "int[3]": ("int[3]", "arr", "arr2"),
}
O_PARAMS = "int a, float x, float4 w4, float3 w3, float3x3 m3, P ps, P ps2, int[3] arr, int[3] arr2"
O_ARGS = {"a": 2, "x": 1.5, "w4": [1.0, 2.0, 3.0, 4.0], "w3": [1.0, 2.0, 3.0], "m3": [[1.0, 2.0, 3.0], [4.0, 5.0, 6.0], [7.0, 8.0, 9.5]],
          "ps": {"fa": 3, "hb": 1.5}, "ps2": {"fa": 4, "hb": 2.5}, "arr": [5, 6, 7], "arr2": [8, 9, 10]}

# consumers: name -> (applicable types, statement template using {v} (the loaded variable), result expression, result type)
O_CONSUMERS = [
    ("ret", ("int", "float", "float4", "float3", "float3x3"), "", "{v}", None),
    ("bin-lhs", ("int", "float"), "", "{v} + 1", None),
    ("bin-rhs", ("int", "float"), "", "1 + {v}", None),
    ("bin-both", ("int", "float"), "", "{v} * {v}", None),
    ("cast", ("int",), "", "{v} + 0.5", "float"),
    ("cmp", ("int", "float"), "", "{v} > 1", "int"),
    ("if", ("int", "float"), "int res = 0; if ({v}) {{ res = 1; }} else {{ res = 2; }}", "res", "int"),
    ("if-noelse", ("int",), "int res = 5; if ({v}) {{ res = 1; }}", "res", "int"),
    ("store", ("int", "float", "float4", "float3x3"), "{T} res = {v};", "res", None),
    ("assign", ("int", "float", "float4", "float3x3"), "{T} res; res = {v};", "res", None),
    ("compound", ("int", "float"), "{v} += 3;", "{v}", None),
    ("affix-pre", ("int", "float"), "++{v};", "{v}", None),
    ("affix-post-operand", ("int",), "int res = {v}++ * 2;", "res + {v}", None),
    ("call-arg0", ("int",), "", "g2({v}, 1)", None),
    ("call-arg1", ("int",), "", "g2(1, {v})", None),
    ("call-arg0f", ("float",), "", "g2({v}, 1.0)", None),
    ("call-arg1f", ("float",), "", "g2(1.0, {v})", None),
    ("call-arg-conv", ("int",), "", "gf1({v})", "float"),
    ("call-vec", ("float4",), "", "gv({v})", "float"),
    ("member-store", ("int",), "P s; s.fa = {v};", "s.fa", "int"),
    ("array-store", ("int",), "int[3] la; la[1] = {v};", "la[1]", "int"),
    ("array-index", ("int",), "int[3] la; la[0] = 7; la[1] = 8; la[2] = 9;", "la[{v} - {v}]", "int"),
    ("vector-elem-store", ("float",), "float4 q4 = w4; q4[1] = {v};", "q4", "float4"),
    ("matrix-row-store", ("float3",), "float3x3 q = m3; q[1] = {v};", "q", "float3x3"),
    ("ctor-arg0", ("float",), "", "float4({v}, 1.0, 2.0, 3.0)", "float4"),
    ("ctor-arg2", ("float",), "", "float4(1.0, 2.0, {v}, 3.0)", "float4"),
    ("ctor-vec", ("float3",), "", "float4({v}, 1.0)", "float4"),
    ("vec-bin-lhs", ("float4", "float3"), "", "{v} + {v}", None),
    ("vec-scalar", ("float4", "float3"), "", "{v} * 2.0", None),
    ("swizzle-read", ("float4", "float3"), "", "{v}.zy", "float2"),
    ("swizzle-read1", ("float4",), "", "{v}.y + 1.0", "float"),
    ("swizzle-write", ("float4", "float3"), "{v}.x = 9.0;", "{v}", None),
    ("swizzle-write2", ("float4",), "{v}.zx = float2(8.0, 9.0);", "{v}", None),
    ("vec-index-read", ("float4", "float3"), "", "{v}[1]", "float"),
    ("vec-index-write", ("float4", "float3"), "{v}[2] = 7.0;", "{v}", None),
    ("mat-scalar", ("float3x3",), "", "{v} * 2.0", None),
    ("mat-add", ("float3x3",), "", "{v} + m3", None),
    ("mat-mul", ("float3x3",), "", "{v} * m3", None),
    ("mat-row-read", ("float3x3",), "", "{v}[1]", "float3"),
    ("mat-elem-read", ("float3x3",), "", "{v}[1][2]", "float"),
    ("mat-row-write", ("float3x3",), "{v}[1] = w3;", "{v}", None),
    ("mat-elem-write", ("float3x3",), "{v}[2][0] = 5.0;", "{v}", None),
    ("field-read", ("P",), "", "{v}.fa", "int"),
    ("field-read-f", ("P",), "", "{v}.hb + 1.0", "float"),
    ("field-write", ("P",), "{v}.fa = 9;", "{v}.fa + 1", "int"),
    ("struct-store", ("P",), "", "gp({v})", "int"),
    ("elem-read", ("int[3]",), "", "{v}[1]", "int"),
    ("elem-read-dyn", ("int[3]",), "", "{v}[a]", "int"),
    ("elem-write", ("int[3]",), "{v}[1] = 9;", "{v}[1] + {v}[0]", "int"),
    ("array-arg", ("int[3]",), "", "ga({v})", "int"),
]

O_HELPERS = """struct P
{
    int fa;
    float hb;
}
function g2(int p, int q) -> int { return p * 10 + q; }
function g2(float p, float q) -> float { return p * 10.0 + q; }
function gv(float4 p) -> float { return p[0] + p[3]; }
function gf1(float p) -> float { return p * 0.5; }
function gp(P p) -> int { return p.fa + 1; }
function ga(int[3] p) -> int { return p[0] + p[2]; }
"""


def _declares(stmt):
    import re
    return re.search(r"(^|[;{] *)(int|float|float4|float3|float3x3|P|int\[3\]) [a-z]", stmt) is not None


def o_case(tname, scope, cname, stmt_t, res_t, rtype, chain, place):
    T, e1, e2 = O_TYPES[tname]
    names = ["v", "u", "z"][:chain]
    decl_g, decl_l, params = "", "", O_PARAMS
    for n in names:
        if scope == "global":
            decl_g += f"{T} {n};\n"
        elif scope == "local":
            decl_l += f"    {T} {n};\n"
        else:
            params += f", {T} {n}"
    last = names[-1]

    def pair(e):
        s = f"{names[0]} = {e}; "
        for p, q in zip(names, names[1:]):
            s += f"{q} = {p}; "
        return s

    stmt = stmt_t.format(v=last, T=T)
    res = res_t.format(v=last)
    RT = rtype or T
    zero = {"int": "0", "float": "0.0"}
    body = pair(e1) + stmt
    if place == "straight":
        code = f"    {body}\n    return {res};\n"
    elif place == "after-branch":
        code = f"    int q0 = 0;\n    if (a > 0) {{ q0 = 1; }}\n    {body}\n    return {res};\n"
    elif place == "in-block":
        code = f"    {{ {pair(e1)} }}\n    {stmt}\n    return {res};\n"
    elif place == "loop":
        code = f"    for (int k = 0; k < 2; ++k) {{ {body} a = a + 1; }}\n    return {res};\n"
        if _declares(stmt):
            return None  # result declared inside the loop body would be out of scope
    elif place == "arms":
        if _declares(stmt):
            return None
        code = f"    if (a > 0) {{ {body} }} else {{ {pair(e2)}{stmt} }}\n    return {res};\n"
    else:
        raise ValueError(place)
    src = O_HELPERS + decl_g + f"export function f({params}) -> {RT}\n{{\n{decl_l}{code}}}\n"
    args = dict(O_ARGS)
    globs = {}
    init = {"int": 1, "float": 0.5, "float4": [0.5, 0.5, 0.5, 0.5], "float3": [0.5, 0.5, 0.5], "float3x3": [[0.5] * 3, [1.5] * 3, [2.5] * 3],
            "P": {"fa": 1, "hb": 0.5}, "int[3]": [1, 2, 3]}
    import copy
    for n in names:
        if scope == "global":
            globs[n] = copy.deepcopy(init[tname])
        elif scope == "arg":
            args[n] = copy.deepcopy(init[tname])
    inputs = []
    for a in (2, 0, -1):
        aa = copy.deepcopy(args)
        aa["a"] = a
        inputs.append((aa, copy.deepcopy(globs)))
    return {"fam": "O", "desc": f"consumer={cname};type={tname};scope={scope};chain={chain};place={place}", "src": src,
            "units": [{"funcs": [], "entry": "f", "inputs": inputs}]}


@family("O")
def fam_O(tier):
    for cname, types_, stmt_t, res_t, rtype in O_CONSUMERS:
        for tname in types_:
            for scope in ("local", "arg", "global"):
                for chain in (1, 2, 3):
                    for place in ("straight", "after-branch", "in-block", "loop", "arms"):
                        if tier == "quick" and chain == 3 and place not in ("straight", "loop"):
                            continue
                        c = o_case(tname, scope, cname, stmt_t, res_t, rtype, chain, place)
                        if c is not None:
                            yield c


# constant-cast grid: literal of type {int,float} through every implicit-cast site
@family("K")
def fam_K(tier):
    sites = [
        ("bin-int-lit-float-var", "float", "x + 2"), ("bin-float-var-int-lit", "float", "2 + x"), ("bin-lit-lit", "float", "2 + 0.5"),
        ("bin-int-zero", "float", "x * 0"), ("bin-neg-lit", "float", "x + -3"), ("cmp-lit", "int", "x > 1"), ("div-lits", "float", "7 / 2.0"),
        ("int-div-lits", "int", "7 / 2"), ("call-int-lit-to-float", "float", "gf(2)"), ("call-float-lit-to-int", "int", "gi(2.0)"),
        ("call-float-lit-to-int-frac", "int", "gi(2.5)"), ("ctor-int-lits", "float4", "float4(1, 2, 3, 4)"), ("ctor-mixed", "float4", "float4(1, 2.5, a, x)"),
        ("ctor-int-from-float-lit", "int2", "int2(1.0, 2)"), ("index-float-lit", "int", "arr[1.0]"), ("index-int-lit", "int", "arr[1]"),
        ("same-value-both-types", "float", "x * 1 + 1.0"), ("same-value-both-types-2", "float", "(a + 1) * 1.0"), ("init-float-with-int", "float", "fi"),
        ("vec-scalar-int-lit", "float4", "w4 * 2"), ("vec-div-int-lit", "float4", "w4 / 2"), ("mat-scalar-int-lit", "float3x3", "m3 * 2"),
        ("large-int-lit", "float", "x + 16777217"), ("hex-lit", "float", "x + 0x10"), ("oct-lit", "float", "x + 010"),
    ]
    for name, rt, expr in sites:
        src = (f"function gf(float p) -> float {{ return p * 2.0; }}\nfunction gi(int p) -> int {{ return p * 2; }}\n"
               f"export function f(int a, float x, float4 w4, float3x3 m3, int[3] arr) -> {rt}\n{{\n    float fi = 3;\n    return {expr};\n}}\n")
        args = {"a": 2, "x": 1.5, "w4": [1.0, 2.0, 3.0, 4.0], "m3": [[1.0, 2.0, 3.0], [4.0, 5.0, 6.0], [7.0, 8.0, 9.5]], "arr": [5, 6, 7]}
        yield {"fam": "K", "desc": f"site={name}", "src": src, "units": [{"funcs": [], "entry": "f", "inputs": [(args, {})]}]}
