"""Bounded-exhaustive program families (DESIGN.md section 4).  generate(name, tier) yields cases
in a fixed order; every member of the stated space is produced exactly once."""
import itertools

from . import lang
from .lang import BINOPS, CMPOPS, func, lit

REGISTRY = {}


def family(name):
    def deco(fn):
        REGISTRY[name] = fn
        return fn
    return deco


def generate(name, tier, shard=0, nshards=1):
    """Yield the cases of shard `shard` (seed index % nshards == shard).  A family function yields
    cheap *seeds* (build_function, args...); the case is only built for the seeds of this shard."""
    for i, seed in enumerate(REGISTRY[name](tier)):
        if i % nshards == shard:
            if isinstance(seed, dict):
                yield seed
            else:
                yield seed[0](*seed[1:])


def stype(e, tenv):
    """Static type of a scalar expression (C09 scalar rules)."""
    k = e[0]
    if k == "lit":
        return e[1]
    if k == "var":
        return tenv[e[1]]
    if k == "bin":
        if e[1] in CMPOPS:
            return "int"
        a, b = stype(e[2], tenv), stype(e[3], tenv)
        return "float" if "float" in (a, b) else "int" if "int" in (a, b) else "uint"
    raise ValueError(e)


def used_vars(e, acc=None):
    acc = set() if acc is None else acc
    if e[0] == "var":
        acc.add(e[1])
    elif e[0] == "bin":
        used_vars(e[2], acc)
        used_vars(e[3], acc)
    return acc


def ops_of(e, acc=None):
    acc = [] if acc is None else acc
    if e[0] == "bin":
        acc.append(e[1])
        ops_of(e[2], acc)
        ops_of(e[3], acc)
    return acc


# =============================================================================================
# E: scalar expression trees
# =============================================================================================
E_PARAMS = [("int", "a"), ("int", "b"), ("float", "x")]
E_TENV = {"a": "int", "b": "int", "x": "float"}
E_LEAVES = [("var", "a"), ("var", "b"), ("var", "x"), lit(2), lit(0.5), lit(-3)]
E_LEAVES_SMALL = [("var", "a"), ("var", "x"), lit(2)]
A_VALUES = {"quick": (-7, -2, 0, 1, 3), "thorough": (-7, -2, -1, 0, 1, 2, 3, 7)}
X_VALUES = {"quick": (-0.5, 0.0, 2.0), "thorough": (-1.5, -0.5, 0.0, 0.5, 2.0, 3.0)}


def expr_trees(n, leaves):
    """All binary expression trees with exactly n operators."""
    if n == 0:
        for l in leaves:
            yield l
        return
    for k in range(n):
        for op in BINOPS:
            for l in expr_trees(k, leaves):
                for r in expr_trees(n - 1 - k, leaves):
                    yield ("bin", op, l, r)


def e_inputs(e, tier):
    used = sorted(used_vars(e))
    doms = []
    for v in used:
        doms.append(X_VALUES[tier] if v == "x" else A_VALUES[tier])
    out = []
    for vals in itertools.product(*doms):
        args = {"a": 1, "b": 1, "x": 1.0}
        args.update(dict(zip(used, vals)))
        out.append((args, {}))
    return out


def _e_pack(fam, tier, mode, trees):
    units = []
    for e in trees:
        t = stype(e, E_TENV)
        name = f"f{len(units)}"
        ops = ops_of(e)
        units.append({"funcs": [func(name, E_PARAMS, t, [("ret", e)])], "entry": name, "inputs": e_inputs(e, tier),
                      "desc": "ops=" + ",".join(sorted(set(ops))) + ";operands=" + "".join(sorted({stype(x, E_TENV)[0] for x in _leaves(e)}))})
    return {"fam": fam, "desc": "pack", "units": units, "mode": mode}


def _e_cases(trees, tier, fam, pack=24):
    for mode in ("min", "full"):
        buf = []
        for e in trees():
            if mode == "full" and not (e[0] == "bin" and (e[2][0] == "bin" or e[3][0] == "bin")):
                continue  # identical text to the minimal rendering
            buf.append(e)
            if len(buf) == pack:
                yield (_e_pack, fam, tier, mode, buf)
                buf = []
        if buf:
            yield (_e_pack, fam, tier, mode, buf)


def _leaves(e):
    if e[0] == "bin":
        return _leaves(e[2]) + _leaves(e[3])
    return [e]


@family("E")
def fam_E(tier):
    def trees():
        for n in (0, 1, 2):
            yield from expr_trees(n, E_LEAVES)
        if tier == "thorough":
            yield from expr_trees(3, E_LEAVES_SMALL)
    return _e_cases(trees, tier, "E")


# =============================================================================================
# S: control flow statement trees with a trace variable
# =============================================================================================
MOD = 65521


def atom(k):
    # t = (t * 31 + k) % 65521
    return ("expr", ("asg", "=", ("var", "t"), ("bin", "%", ("bin", "+", ("bin", "*", ("var", "t"), lit(31)), lit(k)), lit(MOD))))


def compositions(n, kmin, kmax):
    """Ordered tuples of positive ints summing to n with kmin..kmax parts."""
    def rec(rest, parts):
        if len(parts) >= kmin and rest == 0:
            yield tuple(parts)
        if len(parts) < kmax:
            for a in range(1, rest + 1):
                yield from rec(rest - a, parts + [a])
    yield from rec(n, [])


def stmt_skeletons(n, in_loop, allow_block=True):
    """All statement skeletons of exactly n nodes.  Leaves: 'A' atom, 'B' break, 'C' continue, 'R' return."""
    if n == 1:
        yield ("A",)
        yield ("R",)
        if in_loop:
            yield ("B",)
            yield ("C",)
        return
    # if / loops with one body
    for body in stmt_skeletons(n - 1, in_loop):
        yield ("if", body)
    for kind in ("for", "while", "do"):
        for body in stmt_skeletons(n - 1, True):
            yield (kind, body)
    # if/else
    for a in range(1, n - 1):
        for s1 in stmt_skeletons(a, in_loop):
            for s2 in stmt_skeletons(n - 1 - a, in_loop):
                yield ("ifelse", s1, s2)
    # blocks of 2..3 children (children are not blocks themselves)
    if allow_block:
        for parts in compositions(n, 2, 3):
            for kids in itertools.product(*[list(stmt_skeletons(p, in_loop, False)) for p in parts]):
                yield ("seq",) + kids


def count_skeletons(n):
    return sum(1 for _ in stmt_skeletons(n, False))


class _Build:
    """Turns a skeleton into miniast statements: numbers atoms, owns loop counters, picks conditions."""

    def __init__(self, variant):
        self.variant = variant
        self.atoms = 0
        self.loops = 0
        self.conds = 0
        self.feat = set()

    def cond(self, counters):
        i = (self.conds + self.variant) % 3
        self.conds += 1
        if i == 0:
            return ("bin", ">", ("var", "a"), lit(1))
        if i == 1:
            return ("bin", "==", ("bin", "%", ("var", "t"), lit(2)), lit(0))
        if counters:
            return ("bin", "<", ("var", counters[-1]), lit(1))
        return ("bin", "<", ("var", "a"), lit(2))

    def build(self, sk, counters):
        """-> list of statements (a loop may need a counter declaration in front of it)."""
        k = sk[0]
        if k == "A":
            self.atoms += 1
            return [atom(self.atoms)]
        if k == "R":
            self.feat.add("return")
            return [("ret", ("var", "t"))]
        if k == "B":
            self.feat.add("break")
            return [("break",)]
        if k == "C":
            self.feat.add("continue")
            return [("continue",)]
        if k == "seq":
            out = []
            for kid in sk[1:]:
                out += self.build(kid, counters)
            return [("block", out)]
        if k == "if":
            c = self.cond(counters)
            return [("if", c, ("block", self.build(sk[1], counters)), None)]
        if k == "ifelse":
            c = self.cond(counters)
            self.feat.add("else")
            return [("if", c, ("block", self.build(sk[1], counters)), ("block", self.build(sk[2], counters)))]
        self.loops += 1
        n = self.loops
        self.feat.add(k)
        if len(counters) >= 1:
            self.feat.add("nested")
        bound = 2 if counters else 3
        lv = (n + self.variant) % 3
        if k == "for":
            cn = f"i{n}"
            limit = ("bin", "<", ("var", cn), lit(bound)) if lv != 1 else ("bin", "&&", ("bin", "<", ("var", cn), ("var", "a")), ("bin", "<", ("var", cn), lit(bound)))
            body = self.build(sk[1], counters + [cn])
            return [("for", ("decl", "int", cn, lit(0)), limit, ("pre", "++", cn), ("block", body))]
        cn = f"w{n}"
        inc = ("expr", ("asg", "=", ("var", cn), ("bin", "+", ("var", cn), lit(1))))
        body = self.build(sk[1], counters + [cn])
        if lv == 1:
            limit = ("bin", "&&", ("bin", "<", ("var", cn), ("var", "a")), ("bin", "<", ("var", cn), lit(bound)))
        elif lv == 2:
            limit = ("bin", "&&", ("bin", "<", ("bin", "%", ("var", "t"), lit(7)), lit(6)), ("bin", "<", ("var", cn), lit(bound)))
        else:
            limit = ("bin", "<", ("var", cn), lit(bound))
        if k == "while":
            return [("decl", "int", cn, lit(0)), ("while", limit, ("block", [inc] + body))]
        return [("decl", "int", cn, lit(0)), ("do", ("block", [inc] + body), limit)]


def s_case(sk, variant, fam="S"):
    b = _Build(variant)
    body = [("decl", "int", "t", lit(1))] + b.build(sk, []) + [("ret", ("var", "t"))]
    f = func("f", [("int", "a")], "int", body)
    desc = "stmts=" + ",".join(sorted(b.feat)) if b.feat else "stmts=plain"
    return {"fam": fam, "desc": desc, "units": [{"funcs": [f], "entry": "f", "inputs": [({"a": v}, {}) for v in (0, 1, 2, 5)]}]}


def _has(sk, kinds):
    if sk[0] in kinds:
        return 1 + sum(_has(k, kinds) for k in sk[1:] if isinstance(k, tuple))
    return sum(_has(k, kinds) for k in sk[1:] if isinstance(k, tuple))


@family("S")
def fam_S(tier):
    top = 5 if tier == "quick" else 6
    for n in range(1, top + 1):
        for sk in stmt_skeletons(n, False):
            if _has(sk, ("for", "while", "do", "if", "ifelse")) == 0 and n > 2:
                continue
            if tier == "thorough":
                variants = (0, 1, 2) if n <= 5 else (n % 3,)
            else:
                variants = (0, 1, 2) if n <= 4 else (n % 3,)
            for variant in variants:
                yield (s_case, sk, variant)
