"""R4: every check runs on a private snapshot of /repo's *working tree*.

The snapshot is a plain copy of nsl/, nslc.py, nslr.py without parser tables or
byte code, placed first on sys.path with the setuptools editable finder removed,
so `import nsl` can only resolve inside the snapshot and nothing the parser
generator writes lands in /repo.
"""
import atexit
import contextlib
import io
import os
import shutil
import sys
import tempfile

REPO = os.environ.get("NSL_REPO", "/repo")
_SNAP = None


def _tmp_root():
    for cand in (os.environ.get("NSLMC_TMP"), "/dev/shm"):
        if cand and os.path.isdir(cand) and os.access(cand, os.W_OK):
            return cand
    return tempfile.gettempdir()


def make_snapshot():
    root = tempfile.mkdtemp(prefix="nslmc-", dir=_tmp_root())
    ign = shutil.ignore_patterns("parsetab.py", "parser.out", "__pycache__", "*.pyc")
    shutil.copytree(os.path.join(REPO, "nsl"), os.path.join(root, "nsl"), ignore=ign)
    for f in ("nslc.py", "nslr.py"):
        p = os.path.join(REPO, f)
        if os.path.exists(p):
            shutil.copy(p, os.path.join(root, f))
    return root


def strip_editable_finder():
    sys.meta_path[:] = [
        f for f in sys.meta_path
        if "Editable" not in getattr(f, "__name__", type(f).__name__)
    ]


def activate(root=None, quiet_tables=True):
    """Create (or adopt) a snapshot, import nsl from it, build the parser tables once."""
    global _SNAP
    owned = root is None
    if root is None:
        root = make_snapshot()
    _SNAP = root
    strip_editable_finder()
    for m in [m for m in sys.modules if m == "nsl" or m.startswith("nsl.")]:
        del sys.modules[m]
    sys.path.insert(0, root)
    os.environ["ANTERU_NSL_VERIF"] = "1"
    import nsl  # noqa

    assert os.path.realpath(nsl.__file__).startswith(os.path.realpath(root)), nsl.__file__
    if owned:
        pid = os.getpid()

        def _cleanup():
            if os.getpid() == pid:
                shutil.rmtree(root, ignore_errors=True)

        atexit.register(_cleanup)
    if quiet_tables:
        # generate nsl/parsetab.py inside the snapshot once, from the grammar under test
        with contextlib.redirect_stderr(io.StringIO()), contextlib.redirect_stdout(io.StringIO()):
            try:
                from nsl import Compiler

                Compiler.Compiler()
            except BaseException:  # a broken tree must surface inside the checks, not here
                pass
    return root


def root():
    return _SNAP


_EXPR_PARSER = None


def expression_parser():
    """The real parser with the Expression entry point.  Its LALR tables are kept in
    memory only (write_tables=False) so they never evict the module tables on disk."""
    global _EXPR_PARSER
    if _EXPR_PARSER is None:
        import ply.yacc
        from nsl import parser as P

        orig = ply.yacc.yacc

        def patched(*a, **k):
            k.setdefault("write_tables", False)
            k.setdefault("debug", False)
            k.setdefault("tabmodule", "nslmc_expr_parsetab")
            return orig(*a, **k)

        ply.yacc.yacc = patched
        try:
            with contextlib.redirect_stderr(io.StringIO()):
                _EXPR_PARSER = P.NslParser(P.ParseEntryPoint.Expression)
        finally:
            ply.yacc.yacc = orig
    return _EXPR_PARSER
