import json
import os

VERIF = os.path.dirname(os.path.dirname(os.path.abspath(__file__)))
LEVELS = {"exploration", "fault_enumeration", "model_checking", "proof", "translation_validation", "other"}


def write(prop, tier, seed, level, coverage, wall_s, violations, assumptions=()):
    assert level in LEVELS
    cov = dict(coverage)
    cov.setdefault("samples", [])
    doc = {
        "property_id": prop,
        "tier": tier,
        "seed": int(seed),
        "level": level,
        "coverage": cov,
        "assumptions": list(assumptions),
        "wall_s": round(float(wall_s), 3),
        "violations": int(violations),
    }
    _sanity(doc)
    os.makedirs(os.path.join(VERIF, "evidence"), exist_ok=True)
    path = os.path.join(VERIF, "evidence", f"{prop}.json")
    tmp = path + ".tmp"
    with open(tmp, "w") as f:
        json.dump(doc, f, indent=1, sort_keys=True, default=str)
        f.write("\n")
    os.replace(tmp, path)
    return path


def _sanity(doc):
    cov = doc["coverage"]
    if doc["level"] in ("exploration", "fault_enumeration"):
        for k in ("evaluations", "distinct_nontrivial", "rule", "samples"):
            assert k in cov, k
    if doc["level"] == "model_checking":
        for k in ("states", "transitions", "traces_validated_against_impl", "samples"):
            assert k in cov, k
    assert isinstance(cov["samples"], list) and cov["samples"], "samples must be a non-empty list"
