"""Independent WebAssembly 1.0 (MVP) decoder, validator and small interpreter.

Written from the binary-format and validation chapters of the 1.0 specification; shares
no code with nsl.WebAssembly.  Three entry points:

  decode(bytes)            -> Module (raises Malformed)           binary format
  validate(Module)         -> None   (raises Invalid)             validation
  Instance(Module).call(i) -> value  (raises Trap)                execution (i32/f32/f64/i64 numeric,
                                                                  locals, control; no memory/tables)
  frames(bytes)            -> "sizes only" walk used by C19 (does not need a valid module)
"""
import math
import struct

from .leb import LebError, decode_signed, decode_unsigned

I32, I64, F32, F64 = 0x7F, 0x7E, 0x7D, 0x7C
VALTYPES = {I32: "i32", I64: "i64", F32: "f32", F64: "f64"}


class Malformed(Exception):
    pass


class Invalid(Exception):
    pass


class Trap(Exception):
    pass


# ---------------------------------------------------------------- reader
class R:
    def __init__(self, data, pos=0, end=None):
        self.d = data
        self.p = pos
        self.end = len(data) if end is None else end

    def byte(self):
        if self.p >= self.end:
            raise Malformed("unexpected end")
        b = self.d[self.p]
        self.p += 1
        return b

    def u32(self):
        try:
            v, p = decode_unsigned(self.d[: self.end], self.p, 32)
        except LebError as e:
            raise Malformed(str(e))
        self.p = p
        return v

    def s(self, bits):
        try:
            v, p = decode_signed(self.d[: self.end], self.p, bits)
        except LebError as e:
            raise Malformed(str(e))
        self.p = p
        return v

    def take(self, n):
        if self.p + n > self.end:
            raise Malformed("unexpected end")
        b = bytes(self.d[self.p : self.p + n])
        self.p += n
        return b

    def name(self):
        n = self.u32()
        b = self.take(n)
        try:
            return b.decode("utf-8")
        except UnicodeDecodeError:
            raise Malformed("malformed UTF-8 name")

    def valtype(self):
        b = self.byte()
        if b not in VALTYPES:
            raise Malformed(f"invalid value type 0x{b:02x}")
        return b

    def eof(self):
        return self.p >= self.end


class Module:
    def __init__(self):
        self.types = []      # (params, results)
        self.imports = []
        self.funcs = []      # type indices
        self.tables = []
        self.mems = []
        self.globals = []
        self.exports = []    # (name, kind, index)
        self.start = None
        self.elems = []
        self.codes = []      # (locals [(n, t)], instrs)
        self.datas = []
        self.section_ids = []
        self.frames = []     # (id, offset, size)


# opcode -> immediate kind
def _imm_table():
    t = {}
    for o in (0x00, 0x01, 0x05, 0x0B, 0x0F, 0x1A, 0x1B):
        t[o] = ""
    for o in (0x02, 0x03, 0x04):
        t[o] = "bt"
    for o in (0x0C, 0x0D, 0x10, 0x20, 0x21, 0x22, 0x23, 0x24):
        t[o] = "u"
    t[0x0E] = "brtable"
    t[0x11] = "calli"
    for o in range(0x28, 0x3F):
        t[o] = "mem"
    t[0x3F] = "zero"
    t[0x40] = "zero"
    t[0x41] = "s32"
    t[0x42] = "s64"
    t[0x43] = "f32"
    t[0x44] = "f64"
    for o in range(0x45, 0xC0):
        t[o] = ""
    return t


IMM = _imm_table()


def _numeric_sigs():
    s = {}
    s[0x45] = ([I32], I32)
    for o in range(0x46, 0x50):
        s[o] = ([I32, I32], I32)
    s[0x50] = ([I64], I32)
    for o in range(0x51, 0x5B):
        s[o] = ([I64, I64], I32)
    for o in range(0x5B, 0x61):
        s[o] = ([F32, F32], I32)
    for o in range(0x61, 0x67):
        s[o] = ([F64, F64], I32)
    for o in range(0x67, 0x6A):
        s[o] = ([I32], I32)
    for o in range(0x6A, 0x79):
        s[o] = ([I32, I32], I32)
    for o in range(0x79, 0x7C):
        s[o] = ([I64], I64)
    for o in range(0x7C, 0x8B):
        s[o] = ([I64, I64], I64)
    for o in range(0x8B, 0x92):
        s[o] = ([F32], F32)
    for o in range(0x92, 0x99):
        s[o] = ([F32, F32], F32)
    for o in range(0x99, 0xA0):
        s[o] = ([F64], F64)
    for o in range(0xA0, 0xA7):
        s[o] = ([F64, F64], F64)
    conv = {
        0xA7: (I64, I32), 0xA8: (F32, I32), 0xA9: (F32, I32), 0xAA: (F64, I32), 0xAB: (F64, I32),
        0xAC: (I32, I64), 0xAD: (I32, I64), 0xAE: (F32, I64), 0xAF: (F32, I64), 0xB0: (F64, I64),
        0xB1: (F64, I64), 0xB2: (I32, F32), 0xB3: (I32, F32), 0xB4: (I64, F32), 0xB5: (I64, F32),
        0xB6: (F64, F32), 0xB7: (I32, F64), 0xB8: (I32, F64), 0xB9: (I64, F64), 0xBA: (I64, F64),
        0xBB: (F32, F64), 0xBC: (F32, I32), 0xBD: (F64, I64), 0xBE: (I32, F32), 0xBF: (I64, F64),
    }
    for o, (a, b) in conv.items():
        s[o] = ([a], b)
    return s


NUM = _numeric_sigs()


def _blocktype(r):
    b = r.byte()
    if b == 0x40:
        return None
    if b in VALTYPES:
        return b
    raise Malformed(f"invalid block type 0x{b:02x}")


def decode_expr(r, stop_at_else=False):
    """Decode instructions up to and including the matching `end`.  Returns a nested list:
    plain instrs are (op, imm); block/loop are (op, bt, body); if is (op, bt, then, else|None)."""
    out = []
    while True:
        op = r.byte()
        if op == 0x0B:
            return out, "end"
        if op == 0x05:
            if not stop_at_else:
                raise Malformed("else without if")
            return out, "else"
        if op not in IMM:
            raise Malformed(f"unknown opcode 0x{op:02x}")
        k = IMM[op]
        if k == "":
            out.append((op, None))
        elif k == "bt":
            bt = _blocktype(r)
            if op == 0x04:
                then, how = decode_expr(r, stop_at_else=True)
                els = None
                if how == "else":
                    els, _ = decode_expr(r)
                out.append((op, bt, then, els))
            else:
                body, _ = decode_expr(r)
                out.append((op, bt, body))
        elif k == "u":
            out.append((op, r.u32()))
        elif k == "brtable":
            n = r.u32()
            ls = [r.u32() for _ in range(n)]
            out.append((op, (ls, r.u32())))
        elif k == "calli":
            x = r.u32()
            if r.byte() != 0:
                raise Malformed("call_indirect reserved byte")
            out.append((op, x))
        elif k == "mem":
            out.append((op, (r.u32(), r.u32())))
        elif k == "zero":
            if r.byte() != 0:
                raise Malformed("memory instruction reserved byte")
            out.append((op, None))
        elif k == "s32":
            out.append((op, r.s(32)))
        elif k == "s64":
            out.append((op, r.s(64)))
        elif k == "f32":
            out.append((op, struct.unpack("<f", r.take(4))[0]))
        elif k == "f64":
            out.append((op, struct.unpack("<d", r.take(8))[0]))


def _limits(r):
    f = r.byte()
    if f == 0:
        return (r.u32(), None)
    if f == 1:
        return (r.u32(), r.u32())
    raise Malformed("invalid limits flag")


def _vec(r, item):
    return [item(r) for _ in range(r.u32())]


def frames(data):
    """Sizes-only walk: list of (section id, payload offset, declared size).  Raises Malformed
    if the preamble is wrong or the sections do not tile the file exactly."""
    if bytes(data[:4]) != b"\0asm":
        raise Malformed("bad magic")
    if bytes(data[4:8]) != b"\x01\0\0\0":
        raise Malformed("bad version")
    r = R(data, 8)
    out = []
    while not r.eof():
        sid = r.byte()
        size = r.u32()
        if r.p + size > len(data):
            raise Malformed(f"section {sid} size {size} exceeds file")
        out.append((sid, r.p, size))
        r.p += size
    return out


def decode(data):
    data = bytes(data)
    m = Module()
    m.frames = frames(data)
    last = 0
    for sid, off, size in m.frames:
        if sid > 11:
            raise Malformed(f"unknown section id {sid}")
        if sid != 0:
            if sid <= last:
                raise Malformed(f"section {sid} out of order / duplicated")
            last = sid
        m.section_ids.append(sid)
        r = R(data, off, off + size)
        if sid == 0:
            r.name()
            continue
        if sid == 1:
            def ft(r):
                if r.byte() != 0x60:
                    raise Malformed("functype must start with 0x60")
                return (_vec(r, R.valtype), _vec(r, R.valtype))
            m.types = _vec(r, ft)
        elif sid == 2:
            def imp(r):
                mod, nm = r.name(), r.name()
                k = r.byte()
                if k == 0:
                    d = r.u32()
                elif k == 1:
                    if r.byte() != 0x70:
                        raise Malformed("elemtype")
                    d = _limits(r)
                elif k == 2:
                    d = _limits(r)
                elif k == 3:
                    d = (r.valtype(), r.byte())
                else:
                    raise Malformed("import kind")
                return (mod, nm, k, d)
            m.imports = _vec(r, imp)
        elif sid == 3:
            m.funcs = _vec(r, R.u32)
        elif sid == 4:
            def tab(r):
                if r.byte() != 0x70:
                    raise Malformed("table element type must be funcref (0x70)")
                return _limits(r)
            m.tables = _vec(r, tab)
        elif sid == 5:
            m.mems = _vec(r, _limits)
        elif sid == 6:
            def glob(r):
                t = r.valtype()
                mut = r.byte()
                if mut not in (0, 1):
                    raise Malformed("mutability")
                e, _ = decode_expr(r)
                return (t, mut, e)
            m.globals = _vec(r, glob)
        elif sid == 7:
            def exp(r):
                nm = r.name()
                k = r.byte()
                if k > 3:
                    raise Malformed("export kind")
                return (nm, k, r.u32())
            m.exports = _vec(r, exp)
        elif sid == 8:
            m.start = r.u32()
        elif sid == 9:
            def el(r):
                t = r.u32()
                e, _ = decode_expr(r)
                return (t, e, _vec(r, R.u32))
            m.elems = _vec(r, el)
        elif sid == 10:
            def code(r):
                size = r.u32()
                end = r.p + size
                if end > r.end:
                    raise Malformed("code body exceeds section")
                br = R(r.d, r.p, end)
                locs = _vec(br, lambda q: (q.u32(), q.valtype()))
                if sum(n for n, _ in locs) >= 2 ** 32:
                    raise Malformed("too many locals")
                body, _ = decode_expr(br)
                if not br.eof():
                    raise Malformed("code body size mismatch (junk after end)")
                r.p = end
                return (locs, body)
            m.codes = _vec(r, code)
        elif sid == 11:
            def dat(r):
                mi = r.u32()
                e, _ = decode_expr(r)
                return (mi, e, r.take(r.u32()))
            m.datas = _vec(r, dat)
        if not r.eof():
            raise Malformed(f"section {sid}: declared size {size} but content ends at +{r.p - off}")
    if len(m.funcs) != len(m.codes):
        raise Malformed(f"function and code section lengths differ ({len(m.funcs)} vs {len(m.codes)})")
    return m


# ---------------------------------------------------------------- validation
class _Unknown:
    pass


UNK = _Unknown()


class _V:
    """The validation algorithm of the spec appendix (operand stack + control stack)."""

    def __init__(self, m, ftype, locals_):
        self.m = m
        self.locals = locals_
        self.ret = ftype[1]
        self.ops = []
        self.ctrls = []

    def push(self, t):
        self.ops.append(t)

    def pop(self, expect=UNK):
        c = self.ctrls[-1]
        if len(self.ops) == c["height"]:
            if c["unreachable"]:
                return expect
            raise Invalid("operand stack underflow")
        got = self.ops.pop()
        if got is UNK:
            return expect
        if expect is UNK:
            return got
        if got != expect:
            raise Invalid(f"type mismatch: expected {VALTYPES[expect]} got {VALTYPES[got]}")
        return got

    def push_ctrl(self, label, out):
        self.ctrls.append({"label": label, "out": out, "height": len(self.ops), "unreachable": False})

    def pop_ctrl(self):
        if not self.ctrls:
            raise Invalid("control stack underflow")
        c = self.ctrls[-1]
        for t in reversed(c["out"]):
            self.pop(t)
        if len(self.ops) != c["height"]:
            raise Invalid("values remain on the stack at block end")
        self.ctrls.pop()
        return c["out"]

    def unreachable(self):
        c = self.ctrls[-1]
        del self.ops[c["height"]:]
        c["unreachable"] = True

    def label(self, n):
        if n >= len(self.ctrls):
            raise Invalid(f"unknown label {n}")
        return self.ctrls[-1 - n]["label"]

    def seq(self, body):
        for ins in body:
            self.ins(ins)

    def ins(self, ins):
        op = ins[0]
        m = self.m
        if op == 0x00:
            self.unreachable()
        elif op == 0x01:
            pass
        elif op in (0x02, 0x03):
            out = [] if ins[1] is None else [ins[1]]
            self.push_ctrl([] if op == 0x03 else out, out)
            self.seq(ins[2])
            for t in self.pop_ctrl():
                self.push(t)
        elif op == 0x04:
            out = [] if ins[1] is None else [ins[1]]
            self.pop(I32)
            self.push_ctrl(out, out)
            self.seq(ins[2])
            res = self.pop_ctrl()
            if ins[3] is not None:
                self.push_ctrl(out, out)
                self.seq(ins[3])
                res = self.pop_ctrl()
            elif out:
                raise Invalid("if with result needs else")
            for t in res:
                self.push(t)
        elif op == 0x0C:
            for t in reversed(self.label(ins[1])):
                self.pop(t)
            self.unreachable()
        elif op == 0x0D:
            self.pop(I32)
            lt = self.label(ins[1])
            for t in reversed(lt):
                self.pop(t)
            for t in lt:
                self.push(t)
        elif op == 0x0E:
            ls, d = ins[1]
            self.pop(I32)
            dt = self.label(d)
            for l in ls:
                if self.label(l) != dt:
                    raise Invalid("br_table label types differ")
            for t in reversed(dt):
                self.pop(t)
            self.unreachable()
        elif op == 0x0F:
            for t in reversed(self.ret):
                self.pop(t)
            self.unreachable()
        elif op == 0x10:
            x = ins[1]
            if x >= len(m.all_func_types):
                raise Invalid(f"unknown function {x}")
            ps, rs = m.all_func_types[x]
            for t in reversed(ps):
                self.pop(t)
            for t in rs:
                self.push(t)
        elif op == 0x11:
            if not m.tables and not [i for i in m.imports if i[2] == 1]:
                raise Invalid("call_indirect without table")
            if ins[1] >= len(m.types):
                raise Invalid("unknown type")
            self.pop(I32)
            ps, rs = m.types[ins[1]]
            for t in reversed(ps):
                self.pop(t)
            for t in rs:
                self.push(t)
        elif op == 0x1A:
            self.pop()
        elif op == 0x1B:
            self.pop(I32)
            t1 = self.pop()
            t2 = self.pop(t1)
            self.push(t2 if t1 is UNK else t1)
        elif op in (0x20, 0x21, 0x22):
            x = ins[1]
            if x >= len(self.locals):
                raise Invalid(f"unknown local {x} (function has {len(self.locals)})")
            t = self.locals[x]
            if op == 0x20:
                self.push(t)
            elif op == 0x21:
                self.pop(t)
            else:
                self.pop(t)
                self.push(t)
        elif op in (0x23, 0x24):
            x = ins[1]
            if x >= len(m.all_globals):
                raise Invalid(f"unknown global {x}")
            t, mut = m.all_globals[x]
            if op == 0x23:
                self.push(t)
            else:
                if not mut:
                    raise Invalid("global is immutable")
                self.pop(t)
        elif 0x28 <= op <= 0x3E:
            if not m.mems and not [i for i in m.imports if i[2] == 2]:
                raise Invalid("memory instruction without memory")
            loads = {0x28: I32, 0x29: I64, 0x2A: F32, 0x2B: F64, 0x2C: I32, 0x2D: I32, 0x2E: I32, 0x2F: I32,
                     0x30: I64, 0x31: I64, 0x32: I64, 0x33: I64, 0x34: I64, 0x35: I64}
            stores = {0x36: I32, 0x37: I64, 0x38: F32, 0x39: F64, 0x3A: I32, 0x3B: I32, 0x3C: I64, 0x3D: I64, 0x3E: I64}
            if op in loads:
                self.pop(I32)
                self.push(loads[op])
            else:
                self.pop(stores[op])
                self.pop(I32)
        elif op == 0x3F:
            if not m.mems:
                raise Invalid("memory.size without memory")
            self.push(I32)
        elif op == 0x40:
            if not m.mems:
                raise Invalid("memory.grow without memory")
            self.pop(I32)
            self.push(I32)
        elif op == 0x41:
            self.push(I32)
        elif op == 0x42:
            self.push(I64)
        elif op == 0x43:
            self.push(F32)
        elif op == 0x44:
            self.push(F64)
        elif op in NUM:
            ps, r = NUM[op]
            for t in reversed(ps):
                self.pop(t)
            self.push(r)
        else:
            raise Invalid(f"unhandled opcode 0x{op:02x}")


def validate(m):
    for ps, rs in m.types:
        if len(rs) > 1:
            raise Invalid("more than one result (not WebAssembly 1.0)")
    imp_funcs = [i[3] for i in m.imports if i[2] == 0]
    for t in imp_funcs + list(m.funcs):
        if t >= len(m.types):
            raise Invalid(f"unknown type index {t} (module has {len(m.types)} types)")
    m.all_func_types = [m.types[t] for t in imp_funcs] + [m.types[t] for t in m.funcs]
    m.all_globals = [i[3] for i in m.imports if i[2] == 3] + [(t, mut) for t, mut, _ in m.globals]
    ntables = len(m.tables) + len([i for i in m.imports if i[2] == 1])
    nmems = len(m.mems) + len([i for i in m.imports if i[2] == 2])
    if ntables > 1:
        raise Invalid("multiple tables")
    if nmems > 1:
        raise Invalid("multiple memories")
    for lo, hi in m.tables:
        if hi is not None and hi < lo:
            raise Invalid("table limits")
    for lo, hi in m.mems:
        if lo > 65536 or (hi is not None and (hi > 65536 or hi < lo)):
            raise Invalid("memory limits")
    names = set()
    for nm, k, idx in m.exports:
        if nm in names:
            raise Invalid(f"duplicate export name {nm!r}")
        names.add(nm)
        limit = [len(m.all_func_types), ntables, nmems, len(m.all_globals)][k]
        if idx >= limit:
            raise Invalid(f"export {nm!r} refers to unknown index {idx} (only {limit} exist)")
    if m.start is not None:
        if m.start >= len(m.all_func_types):
            raise Invalid("unknown start function")
        if m.all_func_types[m.start] != ([], []):
            raise Invalid("start function type")
    for ti, e, fs in m.elems:
        if ti >= ntables:
            raise Invalid("element segment without table")
        for f in fs:
            if f >= len(m.all_func_types):
                raise Invalid("element refers to unknown function")
    for mi, e, b in m.datas:
        if mi >= nmems:
            raise Invalid("data segment without memory")
    for i, (tidx, (locs, body)) in enumerate(zip(m.funcs, m.codes)):
        ft = m.types[tidx]
        locals_ = list(ft[0])
        for n, t in locs:
            locals_.extend([t] * n)
        v = _V(m, ft, locals_)
        try:
            v.push_ctrl(ft[1], ft[1])
            v.seq(body)
            v.pop_ctrl()
        except Invalid as e:
            raise Invalid(f"function {i}: {e}")


# ---------------------------------------------------------------- interpreter
def _f32(x):
    try:
        return struct.unpack("<f", struct.pack("<f", x))[0]
    except OverflowError:
        return math.copysign(math.inf, x)


def _wrap32(x):
    x &= 0xFFFFFFFF
    return x - (1 << 32) if x & 0x80000000 else x


def _wrap64(x):
    x &= 0xFFFFFFFFFFFFFFFF
    return x - (1 << 64) if x & (1 << 63) else x


class _Br(Exception):
    def __init__(self, depth):
        self.depth = depth


class _Ret(Exception):
    pass


def _divs(a, b, wrap, bits):
    if b == 0:
        raise Trap("integer divide by zero")
    if a == -(1 << (bits - 1)) and b == -1:
        raise Trap("integer overflow")
    q = abs(a) // abs(b)
    return wrap(q if (a < 0) == (b < 0) else -q)


def _fdiv(a, b):
    if b == 0:
        if a == 0 or a != a:
            return math.nan
        return math.copysign(math.inf, a) * math.copysign(1.0, b)
    return a / b


class Instance:
    def __init__(self, m, fuel=200000):
        self.m = m
        self.fuel = fuel
        if m.imports:
            raise Trap("imports not supported by the reference interpreter")

    def export(self, name):
        for nm, k, idx in self.m.exports:
            if nm == name and k == 0:
                return idx
        raise KeyError(name)

    def call_export(self, name, args):
        return self.call(self.export(name), list(args))

    def call(self, fidx, args, depth=0):
        if depth > 200:
            raise Trap("call stack exhausted")
        m = self.m
        ps, rs = m.types[m.funcs[fidx]]
        locs, body = m.codes[fidx]
        assert len(args) == len(ps)
        L = []
        for t, a in zip(ps, args):
            L.append(_f32(float(a)) if t == F32 else float(a) if t == F64 else _wrap32(int(a)) if t == I32 else _wrap64(int(a)))
        for n, t in locs:
            L.extend([0.0 if t in (F32, F64) else 0] * n)
        st = []
        try:
            self.run(body, st, L, depth)
        except _Ret:
            pass
        except _Br:
            pass
        if rs:
            return st[-1]
        return None

    def run(self, body, st, L, depth):
        for ins in body:
            self.fuel -= 1
            if self.fuel < 0:
                raise Trap("out of fuel")
            op = ins[0]
            if op == 0x00:
                raise Trap("unreachable")
            elif op == 0x01:
                pass
            elif op == 0x02:
                try:
                    self.run(ins[2], st, L, depth)
                except _Br as b:
                    if b.depth:
                        raise _Br(b.depth - 1)
            elif op == 0x03:
                while True:
                    try:
                        self.run(ins[2], st, L, depth)
                        break
                    except _Br as b:
                        if b.depth:
                            raise _Br(b.depth - 1)
            elif op == 0x04:
                c = st.pop()
                branch = ins[2] if c else (ins[3] or [])
                try:
                    self.run(branch, st, L, depth)
                except _Br as b:
                    if b.depth:
                        raise _Br(b.depth - 1)
            elif op == 0x0C:
                raise _Br(ins[1])
            elif op == 0x0D:
                if st.pop():
                    raise _Br(ins[1])
            elif op == 0x0E:
                ls, d = ins[1]
                i = st.pop() & 0xFFFFFFFF
                raise _Br(ls[i] if i < len(ls) else d)
            elif op == 0x0F:
                raise _Ret()
            elif op == 0x10:
                ps, rs = self.m.types[self.m.funcs[ins[1]]]
                n = len(ps)
                a = st[len(st) - n:] if n else []
                del st[len(st) - n:]
                r = self.call(ins[1], a, depth + 1)
                if rs:
                    st.append(r)
            elif op == 0x1A:
                st.pop()
            elif op == 0x1B:
                c = st.pop()
                b = st.pop()
                a = st.pop()
                st.append(a if c else b)
            elif op == 0x20:
                st.append(L[ins[1]])
            elif op == 0x21:
                L[ins[1]] = st.pop()
            elif op == 0x22:
                L[ins[1]] = st[-1]
            elif op == 0x41:
                st.append(_wrap32(ins[1]))
            elif op == 0x42:
                st.append(_wrap64(ins[1]))
            elif op == 0x43:
                st.append(ins[1])
            elif op == 0x44:
                st.append(ins[1])
            elif op in NUM:
                self.num(op, st)
            else:
                raise Trap(f"reference interpreter: unsupported opcode 0x{op:02x}")

    def num(self, op, st):
        u32 = lambda x: x & 0xFFFFFFFF
        if op == 0x45:
            st.append(1 if st.pop() == 0 else 0)
            return
        if 0x46 <= op <= 0x4F:
            b = st.pop()
            a = st.pop()
            r = {0x46: a == b, 0x47: a != b, 0x48: a < b, 0x49: u32(a) < u32(b), 0x4A: a > b, 0x4B: u32(a) > u32(b),
                 0x4C: a <= b, 0x4D: u32(a) <= u32(b), 0x4E: a >= b, 0x4F: u32(a) >= u32(b)}[op]
            st.append(1 if r else 0)
            return
        if 0x5B <= op <= 0x60 or 0x61 <= op <= 0x66:
            b = st.pop()
            a = st.pop()
            k = (op - 0x5B) % 6 if op <= 0x60 else (op - 0x61)
            r = [a == b, a != b, a < b, a > b, a <= b, a >= b][k]
            st.append(1 if r else 0)
            return
        if 0x6A <= op <= 0x78:
            b = st.pop()
            a = st.pop()
            if op == 0x6A:
                r = _wrap32(a + b)
            elif op == 0x6B:
                r = _wrap32(a - b)
            elif op == 0x6C:
                r = _wrap32(a * b)
            elif op == 0x6D:
                r = _divs(a, b, _wrap32, 32)
            elif op == 0x6E:
                if b == 0:
                    raise Trap("integer divide by zero")
                r = _wrap32(u32(a) // u32(b))
            elif op == 0x6F:
                if b == 0:
                    raise Trap("integer divide by zero")
                r = _wrap32(int(math.fmod(a, b)))
            elif op == 0x70:
                if b == 0:
                    raise Trap("integer divide by zero")
                r = _wrap32(u32(a) % u32(b))
            elif op == 0x71:
                r = _wrap32(a & b)
            elif op == 0x72:
                r = _wrap32(a | b)
            elif op == 0x73:
                r = _wrap32(a ^ b)
            elif op == 0x74:
                r = _wrap32(a << (b & 31))
            elif op == 0x75:
                r = _wrap32(a >> (b & 31))
            elif op == 0x76:
                r = _wrap32(u32(a) >> (b & 31))
            else:
                raise Trap("rotl/rotr unsupported in reference interpreter")
            st.append(r)
            return
        if 0x92 <= op <= 0x95 or 0xA0 <= op <= 0xA3:
            b = st.pop()
            a = st.pop()
            k = op - (0x92 if op <= 0x95 else 0xA0)
            r = [lambda: a + b, lambda: a - b, lambda: a * b, lambda: _fdiv(a, b)][k]()
            st.append(_f32(r) if op <= 0x95 else r)
            return
        if op == 0x8C or op == 0x9A:
            st.append(-st.pop())
            return
        if op == 0x8B or op == 0x99:
            st.append(abs(st.pop()))
            return
        if op in (0xB2, 0xB7):
            st.append(_f32(float(st.pop())) if op == 0xB2 else float(st.pop()))
            return
        if op in (0xB3, 0xB8):
            v = float(u32(st.pop()))
            st.append(_f32(v) if op == 0xB3 else v)
            return
        if op in (0xA8, 0xAA):
            v = st.pop()
            if v != v or math.isinf(v):
                raise Trap("invalid conversion to integer")
            t = math.trunc(v)
            if not (-(1 << 31) <= t < (1 << 31)):
                raise Trap("integer overflow")
            st.append(t)
            return
        if op == 0xBB:
            return
        if op == 0xB6:
            st.append(_f32(st.pop()))
            return
        raise Trap(f"reference interpreter: unsupported numeric opcode 0x{op:02x}")
