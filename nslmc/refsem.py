"""Reference interpreter of the miniast (DESIGN.md 3.1): boring C-like semantics.

Everything the property texts leave open raises Unspec (R1) and the case is skipped from
comparison.  Values: int, float, list (vector / array), list of lists (matrix / 2-D array),
dict (struct).  Vectors and matrices are values; arrays and structs are storage."""
import copy

from .lang import CMPOPS

I32_MIN, I32_MAX = -(1 << 31), (1 << 31) - 1
SWZ = {"x": 0, "y": 1, "z": 2, "w": 3, "r": 0, "g": 1, "b": 2, "a": 3}


class Unspec(Exception):
    """The property texts do not fix the outcome (R1)."""


class RefError(Exception):
    """The miniast program is ill-formed for the reference (generator bug)."""


class _Break(Exception):
    pass


class _Continue(Exception):
    pass


class _Return(Exception):
    def __init__(self, v):
        self.v = v


def is_scalar(t):
    return t in ("int", "float", "uint")


def is_vec(t):
    return isinstance(t, tuple) and t[0] == "vec"


def is_mat(t):
    return isinstance(t, tuple) and t[0] == "mat"


def is_arr(t):
    return isinstance(t, tuple) and t[0] == "arr"


def is_struct(t):
    return isinstance(t, tuple) and t[0] == "struct"


def comp(t):
    return t if is_scalar(t) else t[1]


def with_comp(t, c):
    if is_scalar(t):
        return c
    return (t[0], c) + tuple(t[2:])


def wider(a, b):
    if "float" in (a, b):
        return "float"
    if "int" in (a, b):
        return "int"
    return "uint"


def convertible(src, dst):
    """C10: scalar<->scalar, vector<->vector of equal size, same-shape matrices, identical aggregates."""
    if is_scalar(src) and is_scalar(dst):
        return True
    if is_vec(src) and is_vec(dst):
        return src[2] == dst[2]
    if is_mat(src) and is_mat(dst):
        return src[2:] == dst[2:]
    return src == dst


class Interp:
    def __init__(self, prog, budget=20000):
        self.prog = prog
        self.funcs = {}
        for f in prog["funcs"]:
            self.funcs.setdefault(f["name"], []).append(f)
        self.structs = {n: fs for n, fs in prog.get("structs", [])}
        self.gtypes = {n: t for t, n in prog.get("globals", [])}
        self.budget = budget
        self.steps = 0
        self.stats = {}

    # ---------------------------------------------------------------- values
    def zero(self, t):
        if t in ("int", "uint"):
            return 0
        if t == "float":
            return 0.0
        if is_vec(t):
            return [self.zero(t[1]) for _ in range(t[2])]
        if is_mat(t):
            return [[self.zero(t[1]) for _ in range(t[3])] for _ in range(t[2])]
        if is_arr(t):
            dims = t[2]
            if len(dims) == 1:
                return [self.zero(t[1]) for _ in range(dims[0])]
            return [self.zero(("arr", t[1], dims[1:])) for _ in range(dims[0])]
        if is_struct(t):
            return {n: self.zero(ft) for ft, n in self.structs[t[1]]}
        raise RefError(f"zero of {t}")

    def conv(self, v, src, dst, boundary=False):
        """Implicit conversion of value v of static type src to dst.  boundary=True: at a call or constructor
        argument, where the compiler inserts a conversion (C03/C04): a non-negative non-integral float truncates
        (floor and truncation agree there); everywhere else, and for negative non-integral values, R1 applies."""
        if src == dst:
            return v
        if is_scalar(src) and is_scalar(dst):
            return self.conv_scalar(v, src, dst, boundary)
        if (is_vec(src) and is_vec(dst) and src[2] == dst[2]):
            return [self.conv_scalar(x, src[1], dst[1], boundary) for x in v]
        if is_mat(src) and is_mat(dst) and src[2:] == dst[2:]:
            return [[self.conv_scalar(x, src[1], dst[1], boundary) for x in row] for row in v]
        raise RefError(f"no conversion {src} -> {dst}")

    def conv_scalar(self, v, src, dst, boundary=False):
        if src == dst:
            return v
        if dst == "float":
            return float(v)
        if dst == "int":
            if src == "float":
                if v != int(v):
                    if not (boundary and v >= 0):
                        raise Unspec("float->int conversion of a non-integral value")
                v = int(v)
            self.rng(v)
            return v
        if dst == "uint":
            if src == "float" and v != int(v):
                raise Unspec("float->uint of non-integral")
            v = int(v)
            if v < 0:
                raise Unspec("negative value to uint")
            return v
        raise RefError(dst)

    def rng(self, v):
        if isinstance(v, int) and not (I32_MIN <= v <= I32_MAX):
            raise Unspec("integer outside the signed 32-bit range")
        return v

    # ---------------------------------------------------------------- entry
    def invoke(self, fname, args, globals_):
        """args: dict name->value (as VirtualMachine.Invoke); globals_: dict mutated in place."""
        cands = self.funcs[fname]
        assert len(cands) == 1, "exported functions are not overloaded"
        f = cands[0]
        self.globals = globals_
        vals = [copy.deepcopy(args[n]) for _, n in f["params"]]
        return self.call_func(f, vals)

    def call_func(self, f, vals):
        self.tick(5)
        frame = [{n: [t, v] for (t, n), v in zip(f["params"], vals)}]
        saved = getattr(self, "scopes", None)
        self.scopes = frame
        self.depth = getattr(self, "depth", 0) + 1
        if self.depth > 40:
            raise Unspec("recursion depth")
        try:
            try:
                for s in f["body"]:
                    self.stmt(s)
                ret = None
            except _Return as r:
                ret = r.v
        finally:
            self.scopes = saved
            self.depth -= 1
        if f["ret"] == "void":
            return None
        if ret is None:
            raise Unspec("non-void function falls off its end")
        rt, rv = ret
        return self.conv(rv, rt, f["ret"])

    def tick(self, n=1):
        self.steps += n
        if self.steps > self.budget:
            raise Unspec("step budget exhausted")

    def count(self, k):
        self.stats[k] = self.stats.get(k, 0) + 1

    # ---------------------------------------------------------------- scopes
    def lookup(self, name):
        for sc in reversed(self.scopes):
            if name in sc:
                return sc[name]
        if name in self.gtypes:
            if name not in self.globals or self.globals[name] is None:
                raise Unspec("read of a global the host never set")
            return _GBox(self.globals, name, self.gtypes[name])
        raise RefError(f"unbound name {name}")

    def declare(self, t, name, v):
        self.scopes[-1][name] = [t, v]

    # ---------------------------------------------------------------- statements
    def block(self, stmts):
        self.scopes.append({})
        try:
            for s in stmts:
                self.stmt(s)
        finally:
            self.scopes.pop()

    def body(self, s):
        """A loop/branch body: its own scope whether braced or not."""
        if s[0] == "block":
            self.block(s[1])
        else:
            self.block([s])

    def truth(self, c):
        t, v = self.ev(c)
        if not is_scalar(t):
            raise Unspec("non-scalar condition")
        return v != 0

    def stmt(self, s):
        self.tick()
        k = s[0]
        if k == "decl":
            _, t, name, init = s
            if init is None:
                v = self.zero(t)
            else:
                it, iv = self.ev(init)
                v = self.conv(iv, it, t) if not (is_arr(t) or is_struct(t)) else self._aggr_copy(iv, it, t)
            self.declare(t, name, v)
        elif k == "expr":
            self.ev(s[1])
        elif k == "block":
            self.block(s[1])
        elif k == "if":
            self.scopes.append({})
            try:
                if self.truth(s[1]):
                    self.count("if-true")
                    self.body(s[2])
                elif s[3] is not None:
                    self.count("if-false")
                    self.body(s[3])
            finally:
                self.scopes.pop()
        elif k == "while":
            it = 0
            while True:
                self.scopes.append({})
                try:
                    if not self.truth(s[1]):
                        break
                    it += 1
                    self.tick()
                    if s[2][0] != "empty":
                        try:
                            self.body(s[2])
                        except _Break:
                            self.count("break")
                            break
                        except _Continue:
                            self.count("continue")
                finally:
                    self.scopes.pop()
            if it >= 2:
                self.count("loop>=2")
        elif k == "do":
            it = 0
            while True:
                it += 1
                self.tick()
                self.scopes.append({})
                try:
                    try:
                        self.body(s[1])
                    except _Break:
                        self.count("break")
                        break
                    except _Continue:
                        self.count("continue")
                    if not self.truth(s[2]):
                        break
                finally:
                    self.scopes.pop()
            if it >= 2:
                self.count("loop>=2")
        elif k == "for":
            _, init, cond, nxt, body = s
            self.scopes.append({})
            it = 0
            try:
                if init is not None:
                    self.stmt(init)
                while True:
                    if cond is not None and not self.truth(cond):
                        break
                    it += 1
                    self.tick()
                    try:
                        self.body(body)
                    except _Break:
                        self.count("break")
                        break
                    except _Continue:
                        self.count("continue")
                    if nxt is not None:
                        self.ev(nxt)
            finally:
                self.scopes.pop()
            if it >= 2:
                self.count("loop>=2")
        elif k == "break":
            raise _Break()
        elif k == "continue":
            raise _Continue()
        elif k == "ret":
            raise _Return(None if s[1] is None else self.ev(s[1]))
        elif k == "empty":
            pass
        else:
            raise RefError(f"statement {k}")

    def _aggr_copy(self, v, src, dst):
        raise Unspec("whole-aggregate initialisation/assignment (aliasing not fixed by the statements)")

    # ---------------------------------------------------------------- expressions
    def ev(self, e):
        """-> (static type, value).  Vector/matrix values are fresh copies; arrays/structs are live."""
        k = e[0]
        if k == "lit":
            return e[1], e[2]
        if k == "var":
            b = self.lookup(e[1])
            t, v = b[0], b[1]
            return t, (copy.deepcopy(v) if is_vec(t) or is_mat(t) else v)
        if k == "bin":
            lt, lv = self.ev(e[2])
            rt, rv = self.ev(e[3])
            return self.binop(e[1], lt, lv, rt, rv)
        if k == "asg":
            _, op, lv, rhs = e
            if op == "=":
                rt, rv = self.ev(rhs)
            else:
                lt0, lv0 = self.ev(lv)
                rt1, rv1 = self.ev(rhs)
                rt, rv = self.binop(op[0], lt0, lv0, rt1, rv1)
            lt = self.typeof_lv(lv)
            if is_arr(lt) or is_struct(lt):
                raise Unspec("whole-aggregate assignment")
            nv = self.conv(rv, rt, lt)
            self.store(lv, nv)
            return lt, nv
        if k in ("pre", "post"):
            b = self.lookup(e[2])
            t, old = b[0], b[1]
            if not is_scalar(t):
                raise Unspec("++/-- on a non-scalar")
            new = old + 1 if e[1] == "++" else old - 1
            self.rng(new)
            b[1] = new
            return t, (new if k == "pre" else old)
        if k == "idx":
            bt, bv = self.ev_ref(e[1])
            it, iv = self.ev(e[2])
            i = self.index(it, iv)
            if is_arr(bt):
                dims = bt[2]
                self.inrange(i, dims[0])
                et = bt[1] if len(dims) == 1 else ("arr", bt[1], dims[1:])
                v = bv[i]
                return et, (copy.deepcopy(v) if is_vec(et) or is_mat(et) else v)
            if is_vec(bt):
                self.inrange(i, bt[2])
                return bt[1], bv[i]
            if is_mat(bt):
                self.inrange(i, bt[2])
                return ("vec", bt[1], bt[3]), list(bv[i])
            raise RefError(f"index into {bt}")
        if k == "fld":
            bt, bv = self.ev_ref(e[1])
            if not is_struct(bt):
                raise RefError("field of non-struct")
            ft = dict((n, t) for t, n in self.structs[bt[1]])[e[2]]
            v = bv[e[2]]
            return ft, (copy.deepcopy(v) if is_vec(ft) or is_mat(ft) else v)
        if k == "swz":
            bt, bv = self.ev(e[1])
            if not is_vec(bt):
                raise Unspec("swizzle on a non-vector")
            mask = e[2]
            if len(mask) > 4:
                raise Unspec("mask longer than four")
            idxs = [SWZ[c] for c in mask]
            for i in idxs:
                if i >= bt[2]:
                    raise RefError("swizzle component outside the vector")
            if len(mask) == 1:
                return bt[1], bv[idxs[0]]
            return ("vec", bt[1], len(mask)), [bv[i] for i in idxs]
        if k == "call":
            args = [self.ev(a) for a in e[2]]
            f = self.resolve(e[1], [t for t, _ in args])
            vals = []
            for (at, av), (pt, _) in zip(args, f["params"]):
                if is_arr(pt) or is_struct(pt):
                    raise Unspec("aggregate passed to a function (reference semantics fixed by the suite, not by the statements)")
                vals.append(self.conv(copy.deepcopy(av), at, pt, boundary=True))
            self.count("call")
            return f["ret"], self.call_func(f, vals)
        if k == "ctor":
            t = e[1]
            args = [self.ev(a) for a in e[2]]
            if is_vec(t):
                flat = []
                for at, av in args:
                    if is_scalar(at):
                        flat.append(self.conv_scalar(av, at, t[1], True))
                    elif is_vec(at):
                        flat += [self.conv_scalar(x, at[1], t[1], True) for x in av]
                    else:
                        raise Unspec("constructor argument kind")
                if len(flat) != t[2]:
                    raise Unspec("constructor component count")
                return t, flat
            if is_mat(t):
                rows = []
                for at, av in args:
                    if not (is_vec(at) and at[2] == t[3]):
                        raise Unspec("matrix constructor from non-rows")
                    rows.append([self.conv_scalar(x, at[1], t[1], True) for x in av])
                if len(rows) != t[2]:
                    raise Unspec("matrix constructor row count")
                return t, rows
            raise Unspec("scalar constructor")
        raise RefError(f"expression {k}")

    def ev_ref(self, e):
        """Evaluate an access base: arrays/structs live, vectors/matrices by value."""
        return self.ev(e)

    def index(self, it, iv):
        if it not in ("int", "uint"):
            raise Unspec("non-integer index")
        return iv

    def inrange(self, i, n):
        if not (0 <= i < n):
            raise Unspec("index out of range")

    def typeof_lv(self, lv):
        k = lv[0]
        if k == "var":
            return self.lookup(lv[1])[0]
        if k == "idx":
            bt = self.typeof_lv(lv[1])
            if is_arr(bt):
                return bt[1] if len(bt[2]) == 1 else ("arr", bt[1], bt[2][1:])
            if is_vec(bt):
                return bt[1]
            if is_mat(bt):
                return ("vec", bt[1], bt[3])
        if k == "fld":
            bt = self.typeof_lv(lv[1])
            return dict((n, t) for t, n in self.structs[bt[1]])[lv[2]]
        if k == "swz":
            bt = self.typeof_lv(lv[1])
            return bt[1] if len(lv[2]) == 1 else ("vec", bt[1], len(lv[2]))
        raise RefError(f"lvalue {k}")

    def store(self, lv, v):
        k = lv[0]
        if k == "var":
            b = self.lookup(lv[1])
            b[1] = copy.deepcopy(v)
            return
        if k == "idx":
            bt = self.typeof_lv(lv[1])
            it, iv = self.ev(lv[2])
            i = self.index(it, iv)
            if is_arr(bt):
                _, cont = self.ev_ref(lv[1])
                self.inrange(i, bt[2][0])
                cont[i] = copy.deepcopy(v)
                return
            if is_vec(bt) or is_mat(bt):
                _, old = self.ev(lv[1])
                self.inrange(i, bt[2])
                old[i] = copy.deepcopy(v)
                self.store(lv[1], old)
                return
        if k == "fld":
            _, cont = self.ev_ref(lv[1])
            cont[lv[2]] = copy.deepcopy(v)
            return
        if k == "swz":
            bt, old = self.ev(lv[1])
            if not is_vec(bt):
                raise Unspec("swizzle write on non-vector")
            mask = lv[2]
            if len(set(mask)) != len(mask):
                raise Unspec("repeating write mask")
            if len(mask) == 1:
                old[SWZ[mask]] = v
            else:
                for j, c in enumerate(mask):
                    old[SWZ[c]] = v[j]
            self.store(lv[1], old)
            return
        raise RefError(f"store to {k}")

    # ---------------------------------------------------------------- operators
    def sc(self, op, a, b, t):
        """scalar a op b at promoted type t."""
        self.count("op" + op)
        if op == "+":
            r = a + b
        elif op == "-":
            r = a - b
        elif op == "*":
            r = a * b
        elif op == "/":
            if b == 0:
                raise Unspec("division by zero")
            if t == "float":
                r = a / b
            else:
                q = abs(a) // abs(b)
                r = q if (a < 0) == (b < 0) else -q
        elif op == "%":
            if t == "float":
                raise Unspec("% on float operands")
            if b == 0:
                raise Unspec("modulo by zero")
            if a < 0 or b < 0:
                raise Unspec("% with a negative operand")
            r = a % b
        elif op == "&&":
            r = 1 if (a != 0 and b != 0) else 0
        elif op == "||":
            r = 1 if (a != 0 or b != 0) else 0
        else:
            r = {"<": a < b, "<=": a <= b, ">": a > b, ">=": a >= b, "==": a == b, "!=": a != b}[op]
            return 1 if r else 0
        if t == "float":
            return float(r)
        if t == "uint" and r < 0:
            raise Unspec("negative uint")
        return self.rng(r)

    def binop(self, op, lt, lv, rt, rv):
        if is_scalar(lt) and is_scalar(rt):
            t = wider(lt, rt)
            a, b = self.conv_scalar(lv, lt, t), self.conv_scalar(rv, rt, t)
            r = self.sc(op, a, b, t)
            return ("int" if op in CMPOPS else t), r
        ct = wider(comp(lt), comp(rt))

        def cv(v, t):
            return self.conv(v, t, with_comp(t, ct))

        if op in CMPOPS:
            if is_vec(lt) and is_vec(rt) and lt[2] == rt[2]:
                a, b = cv(lv, lt), cv(rv, rt)
                return ("vec", "int", lt[2]), [self.sc(op, x, y, ct) for x, y in zip(a, b)]
            raise Unspec("comparison of these shapes")
        if op in ("+", "-", "%", "&&", "||"):
            if is_vec(lt) and is_vec(rt) and lt[2] == rt[2]:
                a, b = cv(lv, lt), cv(rv, rt)
                return ("vec", ct, lt[2]), [self.sc(op, x, y, ct) for x, y in zip(a, b)]
            if is_mat(lt) and is_mat(rt) and lt[2:] == rt[2:]:
                a, b = cv(lv, lt), cv(rv, rt)
                return ("mat", ct, lt[2], lt[3]), [[self.sc(op, x, y, ct) for x, y in zip(ra, rb)] for ra, rb in zip(a, b)]
            raise RefError(f"{op} on {lt}, {rt} is rejected by C09")
        if op == "/":
            if not is_scalar(rt):
                raise RefError("/ needs a scalar right operand")
            b = self.conv_scalar(rv, rt, ct)
            a = cv(lv, lt)
            if is_vec(lt):
                return with_comp(lt, ct), [self.sc("/", x, b, ct) for x in a]
            return with_comp(lt, ct), [[self.sc("/", x, b, ct) for x in row] for row in a]
        if op == "*":
            if is_scalar(rt):
                b = self.conv_scalar(rv, rt, ct)
                a = cv(lv, lt)
                if is_vec(lt):
                    return with_comp(lt, ct), [self.sc("*", x, b, ct) for x in a]
                return with_comp(lt, ct), [[self.sc("*", x, b, ct) for x in row] for row in a]
            if is_scalar(lt):
                a = self.conv_scalar(lv, lt, ct)
                b = cv(rv, rt)
                if is_vec(rt):
                    return with_comp(rt, ct), [self.sc("*", a, x, ct) for x in b]
                return with_comp(rt, ct), [[self.sc("*", a, x, ct) for x in row] for row in b]
            if is_mat(lt) and is_mat(rt) and lt[3] == rt[2]:
                a, b = cv(lv, lt), cv(rv, rt)
                res = [[self._dot([a[i][k] for k in range(lt[3])], [b[k][j] for k in range(lt[3])], ct)
                        for j in range(rt[3])] for i in range(lt[2])]
                return ("mat", ct, lt[2], rt[3]), res
            if is_mat(lt) and is_vec(rt) and lt[3] == rt[2]:
                a, b = cv(lv, lt), cv(rv, rt)
                return ("vec", ct, lt[2]), [self._dot(a[i], b, ct) for i in range(lt[2])]
            raise RefError(f"* on {lt}, {rt} is rejected by C09")
        raise RefError(op)

    def _dot(self, xs, ys, ct):
        acc = 0.0 if ct == "float" else 0
        for x, y in zip(xs, ys):
            acc = self.sc("+", acc, self.sc("*", x, y, ct), ct)
        return acc

    # ---------------------------------------------------------------- overloads (C10 rule)
    def resolve(self, name, argtypes):
        best = None
        bestcost = None
        tie = False
        for f in self.funcs.get(name, []):
            ps = [t for t, _ in f["params"]]
            if len(ps) != len(argtypes):
                continue
            if not all(convertible(a, p) for a, p in zip(argtypes, ps)):
                continue
            cost = sum(1 for a, p in zip(argtypes, ps) if a != p)
            if bestcost is None or cost < bestcost:
                best, bestcost, tie = f, cost, False
            elif cost == bestcost:
                tie = True
        if best is None or tie:
            raise RefError(f"call to {name}{argtypes} must be rejected")
        return best


class _GBox:
    """Box view of a host-visible global: [type, value] with write-through."""

    def __init__(self, g, name, t):
        self.g, self.name, self.t = g, name, t

    def __getitem__(self, i):
        return self.t if i == 0 else self.g[self.name]

    def __setitem__(self, i, v):
        assert i == 1
        self.g[self.name] = v


def values_equal(a, b):
    """R7: numeric comparison, structural for aggregates."""
    if isinstance(a, bool) or isinstance(b, bool):
        a, b = int(a) if isinstance(a, bool) else a, int(b) if isinstance(b, bool) else b
    if isinstance(a, (int, float)) and isinstance(b, (int, float)):
        return a == b
    if isinstance(a, (list, tuple)) and isinstance(b, (list, tuple)):
        return len(a) == len(b) and all(values_equal(x, y) for x, y in zip(a, b))
    if isinstance(a, dict) and isinstance(b, dict):
        return a.keys() == b.keys() and all(values_equal(a[k], b[k]) for k in a)
    if a is None and b is None:
        return True
    return False
