"""C06 - the WebAssembly backend agrees with the VM or refuses."""
from .. import checkers
from ._famprop import make


def FAMS(tier):
    return ["W", "WO", "WS", "WM", "WU", "U", "H"]


run, replay = make(
    "C06", "wasm_agree", FAMS,
    rule="Inside the scalar straight-line subset (family W: every signature of 0-3 int/float parameters x every expression tree with <=2 "
         "operators over {+,-,*,/,==,<,>} whose leaves are the parameters and constants cycling through the LEB128 boundary set and "
         "dyadic floats; quick: trees of 2 operators only up to arity 2) the emitted module must run on wasmtime AND on an independent "
         "reference interpreter and return what a reference evaluation in binary32 returns, on the complete input grid for arity <=2 "
         "and a pairwise grid for arity 3 (ints incl. -2^31+1, -65, -64, 63, 64, 2^31-1); integer division by zero must trap where the "
         "VM raises. Modules with two (thorough: three) functions of DIFFERENT signatures - every ordered pair of the 45 signatures (family WM) - must agree as well. Outside the subset (one observable program per construct, family WO, and the shape grid WS) the module must agree "
         "with the VM or the compilation must fail with an error. Inputs whose result depends on binary32 vs binary64 rounding, integer "
         "overflow or float division by zero are UNSPECIFIED.",
    nontrivial_note="distinct_nontrivial = (function, input) pairs with a specified expectation that were executed on both engines.",
    assumptions=["wasmtime is a conforming engine; nslmc/wasmref.py is the second, independent executor",
                 "globals cannot be set from the host in the emitted modules, so programs reading globals are compared with the VM's value only if refused or equal"],
    replayer=checkers.replay_wasm_agree,
)


# ------------------------------------------------------------------ neighbour independence (nslmc/wpairs.py)
from .. import wpairs

_family_run, _family_replay = run, replay


def run(tier, seed):
    out = _family_run(tier, seed)
    total, n, fails, counts = wpairs.run("C06", tier)
    seen = {f["key"] for f in out["failures"]}
    out["failures"] += [f for f in fails if f["key"] not in seen]
    out["coverage"]["failing_cases_per_key"].update(counts)
    out["coverage"]["evaluations"] += n
    out["coverage"]["distinct_nontrivial"] += n
    out["coverage"]["per_family"][f"pairs(every ordered pair of the {total} WO programs that translate alone, in one module)"] = n
    return out


def replay(rec, verbose=True):
    if "|pairs|" in rec["key"]:
        return wpairs.replay(rec, verbose)
    return _family_replay(rec, verbose)
