"""C16 - separately compiled, imported and linked modules behave like one program.

Partitions of small call-DAG programs into <= 3 modules (acyclic module graph) x import
placement x link histories (which modules are added explicitly, in which order), compiled
separately by the real compiler in dependency order, stored with pickle as nslc.py does and
found by name through FilesystemModuleLoader; oracle = the same functions compiled as one module."""
import itertools
import os
import pickle
import shutil
import tempfile

from .. import pool
from ..engine import vm_outcome
from ..nslapi import classify, compile_src, link, new_vm
from ..refsem import values_equal

LEVEL = "model_checking"

# ------------------------------------------------------------------ base programs
# functions: name -> (source text, callees); f0 is the exported root, e1 a second exported root
BASES = {
    "chain": {
        "globals": "", "types": "",
        "funcs": {
            "f0": ("export function f0(int a) -> int { return f1(a + 1) * 2; }", ["f1"]),
            "f1": ("function f1(int a) -> int { return f2(a) + 3; }", ["f2"]),
            "f2": ("function f2(int a) -> int { return f3(a * 2) - 1; }", ["f3"]),
            "f3": ("function f3(int a) -> int { int r = a; for (int i = 0; i < 2; ++i) { r = r + i; } return r; }", []),
        }, "entries": ["f0"]},
    "diamond": {
        "globals": "", "types": "",
        "funcs": {
            "f0": ("export function f0(int a) -> int { return f1(a) * 100 + f2(a); }", ["f1", "f2"]),
            "f1": ("function f1(int a) -> int { return f3(a) + 1; }", ["f3"]),
            "f2": ("function f2(int a) -> int { return f3(a + 5) + 2; }", ["f3"]),
            "f3": ("function f3(int a) -> int { return a * 3; }", []),
        }, "entries": ["f0"]},
    "fanout": {
        "globals": "", "types": "",
        "funcs": {
            "f0": ("export function f0(int a) -> int { return f1(a) + f2(a, 0.5) * 10 + f3(a); }", ["f1", "f2", "f3"]),
            "f1": ("function f1(int a) -> int { return a + 1; }", []),
            "f2": ("function f2(int a, float x) -> int { if (x > 0.25) { return a * 2; } return a; }", []),
            "f3": ("export function f3(int a) -> int { return a - 7; }", []),
        }, "entries": ["f0", "f3"]},
    "overloads": {
        "globals": "", "types": "",
        "funcs": {
            "f0": ("export function f0(int a) -> int { return f1(a) + f1(0.5) * 10; }", ["f1", "f1f"]),
            "f1": ("function f1(int a) -> int { return a + 1; }", []),
            "f1f": ("function f1(float x) -> int { return f2(2); }", ["f2"]),
            "f2": ("function f2(int a) -> int { return a * 4; }", []),
        }, "entries": ["f0"]},
    "state": {
        "globals": {"f1": "int g1;", "f3": "int[2] g3;"},
        "types": {"f2": "struct ST { int fld; float w; }"},
        "funcs": {
            "f0": ("export function f0(int a) -> int { return f1(a) + f2(a) + f3(a); }", ["f1", "f2", "f3"]),
            "f1": ("function f1(int a) -> int { g1 = g1 + a; return g1; }", []),
            "f2": ("function f2(int a) -> int { ST s; s.fld = a * 2; return s.fld + 1; }", []),
            "f3": ("function f3(int a) -> int { g3[1] = g3[1] + a; return g3[0] + g3[1]; }", []),
        }, "entries": ["f0"]},
    # a struct type defined in one module and used by functions of others (the using module imports the defining one)
    "sharedstruct": {
        # SI appears in no function signature: it is a field type of ST, and the importing modules name it themselves
        "globals": "", "types": {"f2": "struct SI { int k; }\nstruct ST { int fld; float w; int[2] arr; float3 v; SI inner; }"},
        "funcs": {
            "f0": ("export function f0(int a) -> int { ST t = f2(a); t.fld = t.fld + 1; SI q; q.k = t.inner.k + 1; return f3(t) + f1(a) + q.k * 1000; }", ["f2", "f3", "f1"]),
            "f1": ("function f1(int a) -> int { return a - 1; }", []),
            "f2": ("function f2(int a) -> ST { ST s; s.fld = a; s.w = 0.5; s.arr[1] = a + 2; s.v.y = 1.5; s.inner.k = a + 5; return s; }", []),
            "f3": ("function f3(ST s) -> int { return s.fld * 2 + s.arr[1] * 100; }", ["f2"]),
        }, "entries": ["f0"]},
    "tworoots": {
        "globals": "", "types": "",
        "funcs": {
            "f0": ("export function f0(int a) -> int { return f2(a) + 1; }", ["f2"]),
            "e1": ("export function e1(int a) -> int { return f2(a) + f3(a) * 10; }", ["f2", "f3"]),
            "f2": ("function f2(int a) -> int { return f3(a) * 2; }", ["f3"]),
            "f3": ("function f3(int a) -> int { return a + 4; }", []),
        }, "entries": ["f0", "e1"]},
}
GLOBAL_VALUES = {"g1": 5, "g3": [1, 2]}


def set_partitions(items, maxparts):
    items = list(items)

    def rec(i, parts):
        if i == len(items):
            yield [list(p) for p in parts]
            return
        for k in range(len(parts)):
            parts[k].append(items[i])
            yield from rec(i + 1, parts)
            parts[k].pop()
        if len(parts) < maxparts:
            parts.append([items[i]])
            yield from rec(i + 1, parts)
            parts.pop()
    yield from rec(0, [])


def module_graph(base, parts):
    """-> deps: module index -> set of module indices it calls into; None if cyclic."""
    where = {}
    for mi, p in enumerate(parts):
        for fn in p:
            where[fn] = mi
    deps = {mi: set() for mi in range(len(parts))}
    for mi, p in enumerate(parts):
        for fn in p:
            for c in base["funcs"][fn][1]:
                if where[c] != mi:
                    deps[mi].add(where[c])
    # acyclic?
    order, state = [], {}

    def visit(n):
        if state.get(n) == 1:
            return False
        if state.get(n) == 2:
            return True
        state[n] = 1
        for m in sorted(deps[n]):
            if not visit(m):
                return False
        state[n] = 2
        order.append(n)
        return True
    for n in deps:
        if not visit(n):
            return None, None
    return deps, order


def module_source(base, funcs, imports, placement):
    items = []
    gl = base["globals"] or {}
    ty = base["types"] or {}
    for fn in funcs:
        if fn in ty:
            items.append(("type", ty[fn]))
        if fn in gl:
            items.append(("global", gl[fn]))
    for fn in funcs:
        items.append(("func", base["funcs"][fn][0]))
    imps = [f'import "{n}";' for n in imports]
    if placement == "first" or not imps:
        lines = imps + [t for _, t in items]
    elif placement == "after-function":
        # first import first (the grammar's first production), the rest after the first function
        k = next((i for i, (kind, _) in enumerate(items) if kind == "func"), len(items) - 1)
        lines = [t for _, t in items[:k + 1]] + imps + [t for _, t in items[k + 1:]]
    elif placement == "after-global":
        k = next((i for i, (kind, _) in enumerate(items) if kind in ("global", "type")), 0)
        lines = [t for _, t in items[:k + 1]] + imps + [t for _, t in items[k + 1:]]
    elif placement == "split":
        lines = imps[:1] + [t for _, t in items[:1]] + imps[1:] + [t for _, t in items[1:]]
    elif placement == "twice":
        # every import statement written twice: all of them first, and once more after the first item (as after pasting two files
        # together); naming a module twice imports it once
        lines = imps + [t for _, t in items[:1]] + list(reversed(imps)) + [t for _, t in items[1:]]
    else:
        raise ValueError(placement)
    return "\n".join(lines) + "\n"


def single_source(base):
    gl = base["globals"] or {}
    ty = base["types"] or {}
    return "\n".join(list(ty.values()) + list(gl.values()) + [s for s, _ in base["funcs"].values()]) + "\n"


class CountingLoader:
    def __init__(self):
        self.loads = {}

    def Load(self, name):
        from nsl import LinearIR
        self.loads[name] = self.loads.get(name, 0) + 1
        return LinearIR.FilesystemModuleLoader().Load(name)


def reference(base):
    res = compile_src(single_source(base))
    if not res.ok:
        return None
    prog = link(res.module)
    out = {}
    gl = {n: v for n, v in GLOBAL_VALUES.items() if n in prog.Globals}
    for e in base["entries"]:
        for a in (0, 3, -2):
            out[(e, a)] = vm_outcome(prog, e, {"a": a}, gl)
    return {"results": out, "functions": set(prog.Functions.keys()), "globals": set(prog.Globals.keys())}


def w_partition(job):
    bname, pidx_lo, pidx_hi, placements, thorough = job
    base = BASES[bname]
    fails, counts = [], {}
    stats = {"link_histories": 0, "linker_states": 0, "AddModule_calls": 0, "partitions": 0, "nontrivial": 0}
    ref = reference(base)

    def fail(key, rec):
        counts[key] = counts.get(key, 0) + 1
        if counts[key] <= 2:
            rec["key"] = key
            rec["base"] = bname
            fails.append(rec)

    if ref is None:
        fail(f"C16|{bname}|single-module-reference-does-not-compile", {"expected": "compiles", "observed": "rejected", "source": single_source(base)})
        return fails, counts, stats
    names = list(base["funcs"])
    allparts = [p for p in set_partitions(names, 3)]
    cwd = os.getcwd()
    for pidx in range(pidx_lo, min(pidx_hi, len(allparts))):
        parts = allparts[pidx]
        deps, order = module_graph(base, parts)
        if deps is None:
            continue
        stats["partitions"] += 1
        # module names in every order relative to the import graph (a linker that walks names in sorted order must not care)
        names_pool = ["ma", "mb", "mc"][:len(parts)]
        perms = list(itertools.permutations(names_pool)) if len(parts) > 1 else [tuple(names_pool)]
        if len(parts) > 1:
            # look-alike names: one is a prefix of the other, or they differ only in letters that also occur in ".nslir"
            perms = perms[:1] + list(itertools.permutations(["light", "lights", "lin"][:len(parts)])) + perms[1:]
        for placement, naming in [(pl, nmg) for pl in placements for nmg in (perms if pl == "first" else perms[:1])]:
            nm = lambda mi, naming=naming: naming[mi]
            if placement != "first" and not any(deps.values()):
                continue
            tmp = tempfile.mkdtemp(prefix="nslmc-c16-", dir=os.environ.get("NSLMC_TMPDIR") or None)
            stats["namings"] = stats.get("namings", 0) + 1
            os.chdir(tmp)
            try:
                srcs = {}
                modules = {}
                bad = False
                for mi in order:            # dependency order: callees first
                    src = module_source(base, parts[mi], [nm(d) for d in sorted(deps[mi])], placement)
                    srcs[mi] = src
                    res = compile_src(src)
                    if not res.ok:
                        shape = "imports=%d;placement=%s" % (len(deps[mi]), placement)
                        fail(f"C16|{bname}|module-not-compiled|{res.cls()}|{shape}",
                             {"part": "compile", "partition": parts, "placement": placement, "module": nm(mi), "source": src,
                              "expected": "module compiles (its imports are compiled and stored)", "observed": res.cls() + " " + (res.msg or "")})
                        bad = True
                        break
                    with open(nm(mi) + ".nslir", "wb") as f:
                        pickle.dump(res.module, f)
                    modules[mi] = res.module
                if bad:
                    continue
                roots = [mi for mi in range(len(parts)) if any(fn in base["entries"] for fn in parts[mi])]
                others = [mi for mi in range(len(parts)) if mi not in roots]
                # link histories: every non-empty set of explicitly added modules containing all roots, in every order
                adds = []
                for k in range(len(others) + 1):
                    for extra in itertools.combinations(others, k):
                        for perm in itertools.permutations(list(roots) + list(extra)):
                            adds.append(perm)
                by_set = {}
                kept = {}        # module objects loaded once and handed to every second history again: linking does not consume them
                for hidx, perm in enumerate(adds):
                    stats["link_histories"] += 1
                    stats["AddModule_calls"] += len(perm)
                    stats["linker_states"] += len(perm) + 1
                    from nsl import LinearIR
                    loader = CountingLoader()
                    try:
                        with pool.quiet():
                            lk = LinearIR.Linker(loader=loader)
                            for mi in perm:
                                # a module object as loaded from its file: fresh in even histories, the kept one in odd histories
                                lk.AddModule(LinearIR.FilesystemModuleLoader().Load(nm(mi)))
                            program = lk.Link()
                        outcome = ("linked", program)
                    except BaseException as e:
                        outcome = ("rejected", type(e).__name__, classify(e)[2])
                    explicit_only = set(perm) == set(roots)
                    imported = set()
                    stack = list(perm)
                    while stack:
                        x = stack.pop()
                        for d in deps[x]:
                            if d not in imported:
                                imported.add(d)
                                stack.append(d)
                    overlap = imported & set(perm)
                    asc = all(nm(a) < nm(b) for a in deps for b in deps[a])
                    shape = f"modules={len(parts)};added={len(perm)};{'added-and-imported' if overlap else 'roots-only' if explicit_only else 'extra-unrelated'};chain={_depth(deps, roots)};placement={placement};names={'ascending' if asc else 'not-ascending'}"
                    by_set.setdefault(frozenset(perm), []).append((perm, outcome))
                    if overlap:
                        continue   # UNSPECIFIED whether a module that is both added and imported links; only order independence is judged below
                    stats["nontrivial"] += 1
                    if outcome[0] != "linked":
                        fail(f"C16|{bname}|link-rejected|{outcome[1]}@{outcome[2]}|{shape}",
                             {"part": "link", "partition": parts, "placement": placement, "added": [nm(m) for m in perm], "sources": {nm(k): v for k, v in srcs.items()},
                              "expected": "links to the single-module program", "observed": f"{outcome[1]} in {outcome[2]}"})
                        continue
                    program = outcome[1]
                    fset, gset = set(program.Functions.keys()), set(program.Globals.keys())
                    if fset != ref["functions"] or gset != ref["globals"]:
                        fail(f"C16|{bname}|symbol-tables-differ|{shape}",
                             {"part": "link", "partition": parts, "placement": placement, "added": [nm(m) for m in perm], "sources": {nm(k): v for k, v in srcs.items()},
                              "expected": f"functions {sorted(ref['functions'])}, globals {sorted(ref['globals'])}", "observed": f"functions {sorted(fset)}, globals {sorted(gset)}"})
                        continue
                    over = {k: v for k, v in loader.loads.items() if v != 1}
                    missing = [nm(m) for m in imported if nm(m) not in loader.loads]
                    if over or missing:
                        fail(f"C16|{bname}|load-count|{shape}",
                             {"part": "link", "partition": parts, "placement": placement, "added": [nm(m) for m in perm], "sources": {nm(k): v for k, v in srcs.items()},
                              "expected": "every imported module loaded exactly once", "observed": f"loads {loader.loads}"})
                        continue
                    gl = {n: v for n, v in GLOBAL_VALUES.items() if n in program.Globals}
                    for (e, a), want in ref["results"].items():
                        got = vm_outcome(program, e, {"a": a}, gl)
                        same = got[0] == want[0] and (got[0] != "ok" or (values_equal(got[1], want[1]) and values_equal(got[2], want[2])))
                        if not same:
                            fail(f"C16|{bname}|behaviour-differs|{shape}",
                                 {"part": "link", "partition": parts, "placement": placement, "added": [nm(m) for m in perm], "sources": {nm(k): v for k, v in srcs.items()},
                                  "entry": e, "a": a, "expected": str(want), "observed": str(got)})
                            break
                # the same histories once more with module objects that are loaded ONCE and handed to every linker: linking does not
                # consume or change the modules it is given
                for perm in adds:
                    if (set(perm) & {d_ for m_ in perm for d_ in deps[m_]}):
                        continue
                    first = [o for p, o in by_set[frozenset(perm)] if p == perm][0]
                    stats["link_histories"] += 1
                    try:
                        with pool.quiet():
                            lk = LinearIR.Linker(loader=CountingLoader())
                            for mi in perm:
                                if mi not in kept:
                                    kept[mi] = LinearIR.FilesystemModuleLoader().Load(nm(mi))
                                lk.AddModule(kept[mi])
                            program2 = lk.Link()
                        again = ("linked", sorted(program2.Functions), sorted(program2.Globals))
                    except BaseException as e:
                        again = ("rejected", type(e).__name__)
                    was = ("linked", sorted(first[1].Functions), sorted(first[1].Globals)) if first[0] == "linked" else ("rejected", first[1])
                    if again != was:
                        fail(f"C16|{bname}|relinking-kept-module-objects-differs|added={len(perm)};modules={len(parts)}",
                             {"part": "order", "partition": parts, "placement": placement, "sources": {nm(k): v for k, v in srcs.items()},
                              "expected": f"as with freshly loaded modules: {str(was)[:200]}", "observed": str(again)[:200]})
                        break
                # order independence for every set of explicitly added modules
                for s, runs in by_set.items():
                    kinds = {o[0] for _, o in runs}
                    if len(kinds) > 1:
                        fail(f"C16|{bname}|order-dependent-link-decision|added={len(s)}",
                             {"part": "order", "partition": parts, "placement": placement, "sources": {nm(k): v for k, v in srcs.items()},
                              "expected": "the same decision for every order of AddModule", "observed": str([([nm(m) for m in p], o[0]) for p, o in runs])})
            finally:
                os.chdir(cwd)
                shutil.rmtree(tmp, ignore_errors=True)
    return fails, counts, stats


def _depth(deps, roots):
    def d(n, seen=()):
        return 1 + max([d(m, seen + (n,)) for m in deps[n] if m not in seen] or [0])
    return max(d(r) for r in roots)


DUP_CASES = [
    ("duplicate-function-in-two-imported-modules",
     {"ma": "function helper(int a) -> int { return a + 1; }\n", "mb": "function helper(int a) -> int { return a + 2; }\n",
      "root": 'import "ma";\nimport "mb";\nexport function f0(int a) -> int { return a; }\n'}, ["root"]),
    ("duplicate-exported-function-added-explicitly",
     {"ma": "export function twice(int a) -> int { return a + 1; }\n", "mb": "export function twice(int a) -> int { return a + 2; }\n"}, ["ma", "mb"]),
    ("duplicate-global-in-two-added-modules",
     {"ma": "int shared;\nexport function fa(int a) -> int { return shared + a; }\n", "mb": "int shared;\nexport function fb(int a) -> int { return shared - a; }\n"}, ["ma", "mb"]),
    ("duplicate-global-via-import",
     {"ma": "int shared;\nfunction ga(int a) -> int { return shared + a; }\n", "root": 'import "ma";\nint shared;\nexport function f0(int a) -> int { return ga(a) + shared; }\n'}, ["root"]),
]


def w_dups(job):
    from nsl import LinearIR

    fails, counts = [], {}
    stats = {"link_histories": 0, "linker_states": 0, "AddModule_calls": 0, "partitions": 0, "nontrivial": 0}
    cwd = os.getcwd()
    for name, mods, added in DUP_CASES:
        tmp = tempfile.mkdtemp(prefix="nslmc-c16-")
        os.chdir(tmp)
        try:
            ok = True
            for mn in sorted(mods, key=lambda n: n == "root"):
                res = compile_src(mods[mn])
                if not res.ok:
                    ok = False      # rejecting the duplicate already at compile time is a rejection too
                    break
                with open(mn + ".nslir", "wb") as f:
                    pickle.dump(res.module, f)
            for perm in itertools.permutations(added):
                stats["link_histories"] += 1
                stats["nontrivial"] += 1
                stats["AddModule_calls"] += len(perm)
                stats["linker_states"] += len(perm) + 1
                if not ok:
                    continue
                try:
                    with pool.quiet():
                        lk = LinearIR.Linker()
                        for mn in perm:
                            lk.AddModule(LinearIR.FilesystemModuleLoader().Load(mn))
                        lk.Link()
                    linked = True
                except BaseException:
                    linked = False
                if linked:
                    key = f"C16|dups|duplicate-definition-accepted|{name}"
                    counts[key] = counts.get(key, 0) + 1
                    if counts[key] <= 2:
                        fails.append({"key": key, "part": "dups", "case": name, "sources": mods, "added": list(perm),
                                      "expected": "rejected: two definitions of the same function/global", "observed": "linked"})
        finally:
            os.chdir(cwd)
            shutil.rmtree(tmp, ignore_errors=True)
    return fails, counts, stats



# ------------------------------------------------------------------ an imported module whose INTERFACE changes between compilations
RI_LIBS = [
    "function sc(float x) -> float { return x + 0.5; }\n",
    "function sc(float x) -> float { return x + 0.5; }\nfunction sc(int x) -> int { return x * 2; }\n",
    "function sc(int x) -> int { return x * 3; }\nfunction extra(int x) -> int { return x - 1; }\n",
    "struct SV { int k; }\nfunction sc(int x) -> float { SV t; t.k = x; return t.k * 0.25; }\n",
]
RI_APP = "export function main(int a) -> float { float r = sc(a); return r + 100.0; }\n"


def w_reinterface(job):
    """One process, one directory: lib is compiled and stored, app (import "lib") is compiled against it, stored, loaded, linked
    and run; then lib is compiled and stored AGAIN with another interface (every sequence of versions in the job) and app is
    compiled again.  After every step the linked program has to compute what lib-version + app compute as ONE module."""
    from nsl import LinearIR
    seq = job
    fails, counts = [], {}
    stats = {"link_histories": 0, "linker_states": 0, "AddModule_calls": 0, "nontrivial": 0}
    tmp = tempfile.mkdtemp(prefix="nslmc-c16-")
    cwd = os.getcwd()
    os.chdir(tmp)
    try:
        for step, v in enumerate(seq):
            stats["link_histories"] += 1
            stats["nontrivial"] += 1
            stats["AddModule_calls"] += 1
            stats["linker_states"] += 2
            one = compile_src(RI_LIBS[v] + RI_APP)
            want = [vm_outcome(link(one.module), "main", {"a": a}, {}) for a in (3, 8)] if one.ok else None
            lib = compile_src(RI_LIBS[v])
            got = None
            if lib.ok:
                with open("lib.nslir", "wb") as f:
                    pickle.dump(lib.module, f)
                app = compile_src('import "lib";\n' + RI_APP)
                if app.ok:
                    with open("app.nslir", "wb") as f:
                        pickle.dump(app.module, f)
                    try:
                        with pool.quiet():
                            lk = LinearIR.Linker()
                            lk.AddModule(LinearIR.FilesystemModuleLoader().Load("app"))
                            program = lk.Link()
                        got = [vm_outcome(program, "main", {"a": a}, {}) for a in (3, 8)]
                    except BaseException as e:
                        got = f"link fails: {type(e).__name__}: {e}"
                else:
                    got = "importer not compiled: " + app.cls() + " " + (app.msg or "")
            else:
                got = "lib not compiled: " + lib.cls()
            same = want is not None and isinstance(got, list) and all(g[0] == w[0] and (g[0] != "ok" or values_equal(g[1], w[1])) for g, w in zip(got, want))
            if not same:
                key = f"C16|reinterface|differs-from-single-module|step={min(step, 1)};version={v}"
                counts[key] = counts.get(key, 0) + 1
                fails.append({"key": key, "part": "reinterface", "versions": list(seq), "sources": {"lib versions in order": [RI_LIBS[x] for x in seq], "app": RI_APP},
                              "expected": f"as one module: {want}", "observed": str(got)[:300]})
                break
    finally:
        os.chdir(cwd)
        shutil.rmtree(tmp, ignore_errors=True)
    return fails, counts, stats


def rejob(x):
    """Re-execute one worker job (used by ./check --rejob for history-dependent failures)."""
    def tup(v):
        return tuple(tup(y) for y in v) if isinstance(v, list) else v
    return globals()[x[0]](tup(x[1]))


def _dispatch(job):
    fn, arg = job
    return fn(arg)


def run(tier, seed):
    thorough = tier == "thorough"
    jobs = []
    placements = ["first", "after-function", "after-global", "split", "twice"] if thorough else ["first", "after-function", "twice"]
    for bname, base in BASES.items():
        n = len(list(set_partitions(list(base["funcs"]), 3)))
        for lo in range(0, n, 2):
            jobs.append((w_partition, (bname, lo, lo + 2, placements, thorough)))
    jobs.append((w_dups, None))
    for L in (1, 2, 3):
        for q in itertools.product(range(len(RI_LIBS)), repeat=L):
            if all(x != y for x, y in zip(q, q[1:])):
                jobs.append((w_reinterface, q))
    rot = seed % len(jobs) if seed else 0
    jobs = jobs[rot:] + jobs[:rot]
    res = pool.pmap(_dispatch, jobs)
    failures, counts = [], {}
    stats = {}
    for (fn, arg), (fl, c, st) in zip(jobs, res):
        for _f in fl:
            if isinstance(_f, dict) and "key" in _f:
                _f.setdefault("job", {"fn": "nslmc.props.c16:rejob", "arg": [fn.__name__, arg]})
        failures += fl
        for k, v in c.items():
            counts[k] = counts.get(k, 0) + v
        for k, v in st.items():
            stats[k] = stats.get(k, 0) + v
    seen, uniq = set(), []
    for f in failures:
        if f["key"] not in seen:
            seen.add(f["key"])
            uniq.append(f)
    base = BASES["diamond"]
    samples = [{"base": "diamond", "partition": [["f0"], ["f1", "f2"], ["f3"]], "module m0": module_source(base, ["f0"], ["m1"], "first"),
                "link_history": ["AddModule(m0)", "Link()"]},
               {"base": "tworoots", "added_in_order": ["m1", "m0"], "expect": "same program as the single module"}]
    cov = {"states": max(1, stats.get("linker_states", 0)), "transitions": max(1, stats.get("AddModule_calls", 0) + stats.get("link_histories", 0)),
           "traces_validated_against_impl": stats.get("link_histories", 0), "samples": samples,
           "evaluations": stats.get("link_histories", 0), "distinct_nontrivial": stats.get("nontrivial", 0),
           "rule": "seven base programs (chain, diamond, fan-out with two exported entries, overloads across modules, globals+struct, a struct "
                   "type shared across modules, two roots sharing imports); every set partition of their functions into <=3 modules with an acyclic module graph; each module "
                   "imports exactly the modules it calls into, with the import statements placed first / after a function (thorough: also "
                   "after a global / split); modules compiled separately in dependency order by the real compiler, pickled like nslc.py, "
                   "found by name; link histories = every set of explicitly added modules that contains all roots, in EVERY order of "
                   "AddModule, through a counting loader. Oracle: single-module compilation (function and global tables, VM results "
                   "on 3 inputs per entry), each imported module loaded exactly once, order independence, duplicates rejected. A module "
                   "both added and imported is UNSPECIFIED except for order independence.",
           "exhaustive": True, "closed": True, "stats": stats, "failing_cases_per_key": counts,
           "bound": {"functions": 4, "modules": 3, "placements": placements}}
    return {"level": LEVEL, "coverage": cov, "failures": uniq,
            "assumptions": ["the linker state space per history is the sequence of AddModule calls followed by Link (states = prefixes)",
                            "modules are stored with pickle.dump exactly as nslc.py does (nslc.py itself is exercised by C17)"]}


def replay(rec, verbose=True):
    if rec.get("part") == "reinterface":
        fl, _, _ = w_reinterface(tuple(rec["versions"]))
        bad = any(f["key"] == rec["key"] for f in fl)
        if verbose:
            print(rec["sources"], "\nexpected", rec["expected"], "-> reproduced" if bad else "-> not reproduced")
        return bad
    if rec.get("part") == "dups":
        fl, _, _ = w_dups(None)
        bad = any(f["key"] == rec["key"] for f in fl)
        if verbose:
            print(rec["sources"], "\nexpected", rec["expected"], "-> reproduced" if bad else "-> not reproduced")
        return bad
    bname = rec["base"]
    base = BASES[bname]
    allparts = list(set_partitions(list(base["funcs"]), 3))
    want = [list(p) for p in rec["partition"]]
    idx = [i for i, p in enumerate(allparts) if p == want]
    if not idx:
        return False
    fl, _, _ = w_partition((bname, idx[0], idx[0] + 1, [rec["placement"]], True))
    kind = rec["key"].split("|")[2]
    bad = any(f["key"].split("|")[2] == kind for f in fl)
    if verbose:
        for k, v in (rec.get("sources") or {rec.get("module", "m"): rec.get("source", "")}).items():
            print(f"--- {k}.nsl\n{v}")
        print("added:", rec.get("added"), "\nexpected:", rec["expected"], "\nobserved:", rec["observed"])
    return bad
