"""C15 - global state persists exactly across invocation histories; VMs are isolated.

Explicit-state BFS over histories of SetGlobal / Invoke on two VirtualMachine objects created
from the same linked Program, compared after every step with a reference state machine
(two dicts of globals + the reference interpreter on the driver's miniast)."""
import copy

from .. import bfs, lang, pool
from ..families import ASG, B, CTOR, FLD, IDX, V, func
from ..lang import lit
from ..nslapi import classify, compile_src, link, listing, new_vm
from ..refsem import Interp, Unspec, values_equal

LEVEL = "model_checking"
F2 = ("vec", "float", 2)
F4 = ("vec", "float", 4)
M3 = ("mat", "float", 3, 3)


def wrap(var, limit):
    return ("if", B(">", var, lit(limit)), ("block", [ASG(var, lit(0))]), None)


def driver_A():
    structs = [("GS", [("int", "n"), (F2, "v")])]
    globals_ = [("int", "counter"), (("arr", "int", (2,)), "arr"), (("struct", "GS"), "gs"), (F4, "gv")]
    fs = [
        func("bump", [("int", "d")], "int", [ASG(V("counter"), B("+", B("+", V("counter"), V("d")), lit(1))), wrap(V("counter"), 2), ("ret", V("counter"))]),
        func("bumparr", [("int", "d")], "int", [ASG(IDX(V("arr"), V("d")), B("+", IDX(V("arr"), V("d")), lit(1))), wrap(IDX(V("arr"), V("d")), 1),
                                               ("ret", B("+", B("*", IDX(V("arr"), 0), lit(10)), IDX(V("arr"), 1)))]),
        func("setfield", [("int", "d")], "int", [ASG(FLD(V("gs"), "n"), V("d")), ASG(("swz", FLD(V("gs"), "v"), "x"), ("swz", FLD(V("gs"), "v"), "y")), ("ret", FLD(V("gs"), "n"))]),
        func("swz", [("int", "d")], "float", [ASG(("swz", V("gv"), "xy"), ("swz", V("gv"), "yx")), ASG(IDX(V("gv"), 3), IDX(V("gv"), V("d"))), ("ret", IDX(V("gv"), 0))]),
        func("viacall", [("int", "d")], "int", [("decl", "int", "before", V("counter")), ("decl", "int", "r", ("call", "bump", [V("d")])), ("decl", "int", "mid", V("counter")),
                                               ASG(V("counter"), B("+", V("counter"), lit(1))), wrap(V("counter"), 2),
                                               ("ret", B("+", B("+", B("*", V("before"), lit(1000)), B("*", V("mid"), lit(100))), B("+", B("*", V("r"), lit(10)), V("counter"))))]),
        func("arrviacall", [("int", "d")], "int", [("decl", "int", "before", IDX(V("arr"), V("d"))), ("decl", "int", "r", ("call", "bumparr", [V("d")])),
                                                  ("ret", B("+", B("*", V("before"), lit(100)), B("+", B("*", IDX(V("arr"), V("d")), lit(10)), V("r"))))]),
        func("digest", [("int", "d")], "int", [("ret", B("+", B("+", B("*", V("counter"), lit(100)), B("*", IDX(V("arr"), 0), lit(10))), B("+", IDX(V("arr"), 1), B("*", FLD(V("gs"), "n"), lit(1000)))))]),
        # the old value of a vector global is kept in a local while the global is assigned (the local must not follow the global)
        func("keepold", [("int", "d")], "float", [("decl", F4, "old", V("gv")), ASG(V("gv"), B("*", V("gv"), lit(2.0))), ASG(IDX(V("gv"), 0), lit(9.0)),
                                                 ("ret", B("+", IDX(V("old"), V("d")), B("*", IDX(V("gv"), V("d")), lit(100.0))))]),
        # a function without a result whose body falls off its end (no return instruction), invoked by the host and called from a function
        func("voidbump", [("int", "d")], "void", [ASG(V("counter"), B("+", B("+", V("counter"), V("d")), lit(1))), wrap(V("counter"), 2)]),
        func("callsvoid", [("int", "d")], "int", [("expr", ("call", "voidbump", [V("d")])), ("expr", ("call", "voidbump", [lit(0)])), ("ret", V("counter"))]),
        # helper chains two calls deep: the middle function touches no global itself, the innermost one reads / writes one
        func("rd", [("int", "d")], "int", [("ret", B("+", B("*", V("counter"), lit(10)), V("d")))], export=False),
        func("mid", [("int", "d")], "int", [("ret", B("+", ("call", "rd", [V("d")]), lit(1)))], export=False),
        func("viamid", [("int", "d")], "int", [("decl", "int", "r1", ("call", "mid", [V("d")])), ("ret", B("+", B("*", V("r1"), lit(100)), ("call", "mid", [V("d")])))]),
        func("bumpvia", [("int", "d")], "int", [("ret", B("+", ("call", "bump", [V("d")]), lit(5)))], export=False),
        func("viabump", [("int", "d")], "int", [("decl", "int", "r1", ("call", "bumpvia", [V("d")])), ("decl", "int", "r2", ("call", "bumpvia", [V("d")])),
                                               ("ret", B("+", B("+", B("*", V("r1"), lit(100)), B("*", V("r2"), lit(10))), V("counter")))]),
    ]
    domains = {"counter": [0, 2], "arr": [[0, 0], [1, 0]], "gs": [{"n": 0, "v": [0.5, 1.5]}, {"n": 1, "v": [1.5, 1.5]}], "gv": [[1.0, 2.0, 3.0, 4.0], [2.0, 2.0, 1.0, 1.0]]}
    return {"name": "A", "prog": lang.prog(fs, globals_, structs), "domains": domains, "invoke": [(f["name"], a) for f in fs if f["export"] for a in ((0, 1) if f["name"] != "digest" else (0,))]}


def driver_B():
    structs = [("GS", [("int", "n"), (F2, "v")]), ("GA", [(("arr", "int", (2,)), "arr"), (("struct", "GS"), "inner"), ("int", "k")])]
    globals_ = [("int", "counter")]
    helper = func("helper", [("int", "p")], "int", [ASG(V("p"), B("+", V("p"), lit(10))), ("ret", V("p"))], export=False)
    fs = [
        helper,
        func("localinc", [("int", "d")], "int", [("decl", "int", "v", None), ASG(V("v"), B("+", B("+", V("v"), V("d")), lit(1))), ("ret", V("v"))]),
        func("localarr", [("int", "d")], "int", [("decl", ("arr", "int", (2,)), "a", None), ASG(IDX(V("a"), V("d")), B("+", IDX(V("a"), V("d")), lit(5))),
                                                ("ret", B("+", B("*", IDX(V("a"), 0), lit(10)), IDX(V("a"), 1)))]),
        func("localarr2", [("int", "d")], "int", [("decl", ("arr", "int", (2, 2)), "a", None), ASG(IDX(IDX(V("a"), V("d")), 1), B("+", IDX(IDX(V("a"), V("d")), 1), lit(5))),
                                                 ("ret", B("+", B("+", B("*", IDX(IDX(V("a"), 0), 1), lit(10)), IDX(IDX(V("a"), 1), 1)), B("+", IDX(IDX(V("a"), 0), 0), IDX(IDX(V("a"), 1), 0))))]),
        func("localstruct", [("int", "d")], "int", [("decl", ("struct", "GS"), "s", None), ASG(FLD(V("s"), "n"), B("+", B("+", FLD(V("s"), "n"), V("d")), lit(1))),
                                                   ASG(("swz", FLD(V("s"), "v"), "y"), lit(2.5)), ("ret", FLD(V("s"), "n"))]),
        # a local struct with an array field and a nested struct field: both must be fresh on every invocation
        func("localnested", [("int", "d")], "int", [("decl", ("struct", "GA"), "s", None), ASG(IDX(FLD(V("s"), "arr"), V("d")), B("+", IDX(FLD(V("s"), "arr"), V("d")), lit(5))),
                                                   ASG(FLD(FLD(V("s"), "inner"), "n"), B("+", FLD(FLD(V("s"), "inner"), "n"), lit(1))), ASG(FLD(V("s"), "k"), B("+", FLD(V("s"), "k"), lit(2))),
                                                   ("ret", B("+", B("+", B("*", IDX(FLD(V("s"), "arr"), 0), lit(1000)), B("*", IDX(FLD(V("s"), "arr"), 1), lit(100))),
                                                             B("+", B("*", FLD(FLD(V("s"), "inner"), "n"), lit(10)), FLD(V("s"), "k"))))]),
        func("localvec", [("int", "d")], "float", [("decl", F4, "w", None), ASG(IDX(V("w"), V("d")), B("+", IDX(V("w"), V("d")), lit(1.5))), ("ret", B("+", IDX(V("w"), 0), IDX(V("w"), 1)))]),
        func("consts", [("int", "d")], "float", [("decl", "float", "f", lit(1.0)), ("decl", "int", "i", lit(1)), ASG(V("f"), B("+", B("+", V("f"), V("i")), V("d"))), ("ret", V("f"))]),
        func("callthenread", [("int", "d")], "int", [("decl", "int", "r", ("call", "helper", [V("d")])), ("ret", B("+", B("*", V("r"), lit(100)), V("d")))]),
        func("touch", [("int", "d")], "int", [ASG(V("counter"), B("+", V("counter"), lit(1))), wrap(V("counter"), 1), ("ret", V("counter"))]),
        # recursion: a local set before the recursive call is read after it (activations must not share their value maps)
        func("fact", [("int", "n")], "int", [("decl", "int", "keep", V("n")), ("if", B(">", V("n"), lit(1)), ("block", [("decl", "int", "sub", ("call", "fact", [B("-", V("n"), lit(1))])),
                                                                                                                        ("ret", B("*", V("keep"), V("sub")))]), None), ("ret", lit(1))], export=False),
        func("callrec", [("int", "d")], "int", [("ret", B("+", ("call", "fact", [B("+", V("d"), lit(3))]), B("*", V("counter"), lit(1000))))]),
        # matrix products: every product is a fresh value (an earlier product survives a later one, in this and in later invocations)
        func("matprod", [("int", "d")], "float", [("decl", M3, "a", None), ASG(IDX(IDX(V("a"), 0), 0), lit(2.0)), ASG(IDX(IDX(V("a"), 1), 1), B("+", lit(3.0), V("d"))), ASG(IDX(IDX(V("a"), 2), 2), lit(1.0)),
                                                 ASG(IDX(IDX(V("a"), 0), 1), lit(1.0)), ("decl", M3, "p", B("*", V("a"), V("a"))), ("decl", M3, "q", B("*", V("p"), V("a"))),
                                                 ("ret", B("+", B("+", IDX(IDX(V("p"), 0), 0), B("*", IDX(IDX(V("p"), 1), 1), lit(10.0))), B("*", IDX(IDX(V("q"), 1), 1), lit(1000.0))))]),
        # a call site with literal arguments only, whose callee writes to its parameter: every invocation binds the literal afresh
        func("drain", [("int", "k")], "int", [ASG(V("k"), B("-", V("k"), lit(1))), ("ret", V("k"))], export=False),
        func("literalsite", [("int", "d")], "int", [("ret", B("+", B("*", ("call", "drain", [lit(3)]), lit(10)), V("d")))]),
    ]
    return {"name": "B", "prog": lang.prog(fs, globals_, structs), "domains": {"counter": [0, 1]},
            "invoke": [(f["name"], a) for f in fs if f["export"] for a in (0, 1)]}


def driver_C():
    structs = [("GS", [("int", "n"), (F2, "v")])]
    globals_ = [(("arr", "int", (2, 2)), "g2"), (("arr", ("struct", "GS"), (2,)), "garr"), (F2, "uv")]
    fs = [
        # constructors whose first part is a vector GLOBAL used directly: the global is read, never changed
        func("fromglobal", [("int", "d")], "float", [("decl", F4, "t", CTOR(F4, V("uv"), lit(1.0), lit(2.0))), ("decl", F4, "u", CTOR(F4, V("uv"), V("uv"))),
                                                    ("ret", B("+", B("+", IDX(V("t"), V("d")), B("*", IDX(V("u"), B("+", V("d"), lit(2))), lit(10.0))), B("*", IDX(V("uv"), V("d")), lit(100.0))))]),
        func("set2", [("int", "d")], "int", [ASG(IDX(IDX(V("g2"), V("d")), 1), B("+", IDX(IDX(V("g2"), V("d")), 1), lit(1))), wrap(IDX(IDX(V("g2"), V("d")), 1), 1),
                                            ("ret", B("+", B("+", B("*", IDX(IDX(V("g2"), 0), 0), lit(1000)), B("*", IDX(IDX(V("g2"), 0), 1), lit(100))), B("+", B("*", IDX(IDX(V("g2"), 1), 0), lit(10)), IDX(IDX(V("g2"), 1), 1))))]),
        func("setelem", [("int", "d")], "int", [ASG(FLD(IDX(V("garr"), V("d")), "n"), B("-", lit(1), FLD(IDX(V("garr"), V("d")), "n"))),
                                               ("ret", B("+", B("*", FLD(IDX(V("garr"), 0), "n"), lit(10)), FLD(IDX(V("garr"), 1), "n")))]),
    ]
    return {"name": "C", "prog": lang.prog(fs, globals_, structs),
            "domains": {"g2": [[[0, 0], [0, 0]], [[1, 0], [0, 1]]], "garr": [[{"n": 0, "v": [0.5, 1.5]}, {"n": 1, "v": [0.5, 1.5]}]], "uv": [[3.5, 4.5]]},
            "invoke": [(f["name"], a) for f in fs for a in (0, 1)]}


DRIVERS = {"A": driver_A, "B": driver_B, "C": driver_C}
_CACHE = {}


def get_driver(name):
    if name not in _CACHE:
        d = DRIVERS[name]()
        src = lang.render(d["prog"])
        res = compile_src(src)
        d["src"] = src
        d["res"] = res
        if res.ok:
            d["pristine"] = _program_fingerprint(res.module)
        menu = []
        for vm in (0, 1):
            for g, dom in d["domains"].items():
                for k in range(len(dom)):
                    menu.append(("set", vm, g, k))
            for fname, a in d["invoke"]:
                menu.append(("inv", vm, fname, a))
        d["menu"] = menu
        _CACHE[name] = d
    return _CACHE[name]


def _program_fingerprint(module):
    consts = []
    for f in module.Functions.values():
        consts.append((f.Name, [(c.Reference, repr(c.Value), str(c.Type)) for c in f.Constants],
                       [(b.Reference, len(b.Instructions)) for b in f.BasicBlocks]))
    return listing(module) + repr(consts)


def _snap(o, skip_mod, depth=0, seen=None):
    """Generic deep snapshot of an object's attribute graph (program objects are named, not walked)."""
    seen = seen if seen is not None else {}
    if isinstance(o, (int, float, str, bool, type(None))):
        return repr(o)
    if id(o) in seen:
        return "<cycle>"
    if depth > 12:
        return "<deep>"
    seen = dict(seen)
    seen[id(o)] = 1
    if isinstance(o, dict):
        return "{" + ",".join(f"{_snap(k, skip_mod, depth + 1, seen)}:{_snap(v, skip_mod, depth + 1, seen)}" for k, v in sorted(o.items(), key=lambda kv: repr(kv[0]))) + "}"
    if isinstance(o, (list, tuple)):
        return "[" + ",".join(_snap(x, skip_mod, depth + 1, seen) for x in o) + "]"
    if isinstance(o, (set, frozenset)):
        return "set(" + ",".join(sorted(_snap(x, skip_mod, depth + 1, seen) for x in o)) + ")"
    mod = getattr(type(o), "__module__", "")
    if mod.startswith(skip_mod):
        return f"<{type(o).__name__}>"
    if hasattr(o, "__dict__"):
        return f"{type(o).__name__}(" + _snap(vars(o), skip_mod, depth + 1, seen) + ")"
    return f"<{type(o).__name__}>"


def _module_state():
    import nsl.VM as M
    import types as pytypes

    out = []
    for k, v in sorted(vars(M).items()):
        if k.startswith("__") or callable(v) or isinstance(v, (pytypes.ModuleType, type)):
            continue
        out.append((k, _snap(v, "nsl.LinearIR")))
    return repr(out)


def run_history(dname, hist):
    """Replay a history on fresh VMs next to the reference.  -> (canon, violation|None, terminal, outcome)"""
    d = get_driver(dname)
    res = d["res"]
    if not res.ok:
        return None, {"key": f"C15|{dname}|driver-does-not-compile|{res.cls()}", "source": d["src"], "expected": "compiles", "observed": res.cls() + " " + (res.msg or "")}, True, "nc"
    program = link(res.module)
    vms = [new_vm(program), new_vm(program)]
    gnames = [n for _, n in d["prog"]["globals"]]
    ref_g = [{n: None for n in gnames}, {n: None for n in gnames}]
    outcome = None
    for step, ev in enumerate(hist):
        last = step == len(hist) - 1
        kind, vi = ev[0], ev[1]
        if kind == "set":
            val = d["domains"][ev[2]][ev[3]]
            vms[vi].SetGlobal(ev[2], copy.deepcopy(val))
            ref_g[vi][ev[2]] = copy.deepcopy(val)
            outcome = "set"
        else:
            it = Interp(d["prog"])
            try:
                want = ("ok", it.invoke(ev[2], {"d": ev[3]}, ref_g[vi]))
            except Unspec as u:
                want = ("unspec", str(u))
            try:
                with pool.time_limit(2.0):
                    got = ("ok", vms[vi].Invoke(ev[2], d=ev[3]))
            except pool.Timeout:
                got = ("timeout",)
            except BaseException as e:
                got = ("exc", type(e).__name__, classify(e)[2])
            if want[0] == "unspec":
                # e.g. a global the host never set: the statement fixes nothing; do not explore further
                return None, None, True, "unspec"
            if got[0] != "ok":
                return None, _viol(d, dname, "invoke-fails", ev, f"{got}", f"returns {want[1]!r}"), True, "exc"
            if not values_equal(got[1], want[1]):
                return None, _viol(d, dname, "wrong-return", ev, f"returns {got[1]!r}", f"returns {want[1]!r}"), True, "wrong"
            outcome = repr(want[1])
        # after every step: all globals of both VMs against the reference
        for k in (0, 1):
            for n in gnames:
                try:
                    real = vms[k].GetGlobal(n)
                except BaseException as e:
                    real = f"<<{type(e).__name__}>>"
                if not values_equal(real, ref_g[k][n]):
                    which = "same-vm" if k == vi else "other-vm"
                    return None, _viol(d, dname, f"wrong-global-{which}", ev, f"vm{k}.{n} = {real!r}", f"vm{k}.{n} = {ref_g[k][n]!r}"), True, "wrong"
    fp = _program_fingerprint(res.module)
    if fp != d["pristine"]:
        return None, {"key": f"C15|{dname}|program-modified-by-execution", "source": d["src"], "expected": "the shared program is read-only during execution",
                      "observed": "instruction listing / constant table changed"}, True, "modified"
    canon = repr((dname, [[(n, _snap(vms[k].GetGlobal(n), "nsl.LinearIR")) for n in gnames] for k in (0, 1)],
                  [_snap(vm, "nsl.LinearIR") for vm in vms], _module_state()))
    return canon, None, False, outcome


def _viol(d, dname, kind, ev, obs, exp):
    what = ev[2] if ev[0] == "inv" else "SetGlobal:" + ev[2]
    return {"key": f"C15|{dname}|{kind}|{what}", "source": d["src"], "expected": exp, "observed": obs}


def w_repeat(job):
    """Long histories of ONE kind: the same exported function invoked 320 times on one VM (a second VM of the program touched in
    between), every result and every global compared with the reference.  State that accumulates per invocation shows only here."""
    dname, lo, hi = job
    d = get_driver(dname)
    res = d["res"]
    fails, n = [], 0
    if not res.ok:
        return n, fails
    gnames = [g for _, g in d["prog"]["globals"]]
    for fname, a in d["invoke"][lo:hi]:
        program = link(res.module)
        vms = [new_vm(program), new_vm(program)]
        ref_g = [{g: None for g in gnames}, {g: None for g in gnames}]
        for k in (0, 1):
            for g, dom in d["domains"].items():
                vms[k].SetGlobal(g, copy.deepcopy(dom[k % len(dom)]))
                ref_g[k][g] = copy.deepcopy(dom[k % len(dom)])
        bad = None
        for step in range(320):
            k = 1 if step % 50 == 49 else 0
            try:
                want = Interp(d["prog"]).invoke(fname, {"d": a} if "d" in [p[1] for f in d["prog"]["funcs"] if f["name"] == fname for p in f["params"]] else {"n": a}, ref_g[k])
            except Unspec:
                break
            n += 1
            try:
                with pool.time_limit(2.0):
                    got = vms[k].Invoke(fname, **({"d": a} if "d" in [p[1] for f in d["prog"]["funcs"] if f["name"] == fname for p in f["params"]] else {"n": a}))
            except BaseException as e:
                bad = (step, f"invocation {step + 1} raises {type(e).__name__}: {e}", f"returns {want!r}")
                break
            if not values_equal(got, want):
                bad = (step, f"invocation {step + 1} returns {got!r}", f"returns {want!r}")
                break
            for kk in (0, 1):
                for g in gnames:
                    if not values_equal(vms[kk].GetGlobal(g), ref_g[kk][g]):
                        bad = (step, f"after invocation {step + 1}: vm{kk}.{g} = {vms[kk].GetGlobal(g)!r}", f"vm{kk}.{g} = {ref_g[kk][g]!r}")
            if bad:
                break
        if bad:
            fails.append({"key": f"C15|{dname}|repeated-invocation-differs|{fname}", "source": d["src"], "repeat": [dname, lo, hi], "expected": bad[2], "observed": bad[1],
                          "history": [["inv", 0, fname, a]] * min(bad[0] + 1, 3)})
    return n, fails


def expand(job):
    hists, dname = job
    d = get_driver(dname)
    out = []
    for h in hists:
        succs = []
        for ev in d["menu"]:
            canon, viol, terminal, outcome = run_history(dname, list(h) + [ev])
            succs.append((ev, canon, viol, terminal, outcome))
        out.append((h, succs))
    return out


def run(tier, seed):
    thorough = tier == "thorough"
    states = transitions = 0
    failures, counts = [], {}
    samples = []
    per = {}
    outcomes = set()
    closed_all = True
    maxd = 0
    order = ["A", "B", "C"]
    order = order[seed % 3:] + order[:seed % 3]
    for dname in order:
        init, viol, _, _ = run_history(dname, [])
        if viol:
            failures.append(dict(viol, history=[]))
            counts[viol["key"]] = 1
            continue
        depth = {"A": 4, "B": 3, "C": 6}[dname] if not thorough else {"A": 40, "B": 40, "C": 40}[dname]
        # thorough: towards closure, but no longer than 25 minutes per driver (driver A has ~4 x 10^5 states x 62 events; whether the
        # search closed, and the depth it completed, are in the evidence - a capped search is reported as capped)
        r = bfs.explore(expand, init, depth, extra=dname, chunk=4 if thorough else 2, time_budget=1500 if thorough else None)
        states += r.states
        transitions += r.transitions
        per[dname] = {"states": r.states, "transitions": r.transitions, "max_depth": r.max_depth, "closed": r.closed,
                      "terminal_unspecified": r.terminal, "new_states_per_depth": r.per_depth, "events": len(get_driver(dname)["menu"])}
        closed_all = closed_all and r.closed
        maxd = max(maxd, r.max_depth)
        outcomes |= r.distinct_outcomes
        for v in r.violations:
            failures.append(v)
        for k, c in r.counts.items():
            counts[k] = counts.get(k, 0) + c
        samples += [{"driver": dname, "history": s} for s in r.samples[:2]]
    rjobs = [(dn, i, i + 2) for dn in order for i in range(0, len(get_driver(dn)["invoke"]), 2)]
    repeated = 0
    for a_, fl_ in pool.pmap(w_repeat, rjobs):
        repeated += a_
        for f_ in fl_:
            failures.append(f_)
            counts[f_["key"]] = counts.get(f_["key"], 0) + 1
    transitions += repeated
    seen, uniq = set(), []
    for f in failures:
        if f["key"] not in seen:
            seen.add(f["key"])
            f["driver"] = f["key"].split("|")[1]
            uniq.append(f)
    cov = {"states": max(states, 1), "transitions": max(transitions, 1), "traces_validated_against_impl": transitions,
           "samples": samples or [{"note": "no successor state"}],
           "evaluations": transitions, "distinct_nontrivial": states,
           "rule": "explicit-state BFS; state = canonical form of (all globals of both VMs, deep snapshot of both VM objects, module-level "
                   "state of nsl.VM); transition = one SetGlobal(vm, name, value) with a 2-value domain per global or one Invoke(vm, f, d) "
                   "with d in {0,1}, vm in {1,2}, both VMs over the same Program object; every history is replayed on fresh VMs next to "
                   "the reference (two dicts + reference interpreter) and after every step the return value and ALL globals of BOTH VMs are "
                   "compared; the shared program's listing and constant tables must be unchanged. Histories whose reference result is "
                   "UNSPECIFIED (reading a global the host never set) are terminal.",
           "exhaustive": closed_all, "closed": closed_all, "max_depth": maxd, "per_driver": per,
           "distinct_outcomes": len(outcomes), "failing_cases_per_key": counts,
           "bound": {"depth": "closure" if thorough else {"A": 4, "B": 3, "C": 6}, "vms": 2, "argument_domain": [0, 1]}}
    return {"level": LEVEL, "coverage": cov, "failures": uniq,
            "assumptions": ["host values are freshly built per SetGlobal (host-side aliasing is not part of the experiment)",
                            "three driver programs with wrap-around counters make the state space finite; other programs are not covered"]}


def replay(rec, verbose=True):
    if "repeat" in rec:
        n, fl = w_repeat(tuple(rec["repeat"]))
        if verbose:
            print(rec["source"])
            print(fl)
        return any(f["key"] == rec["key"] for f in fl)
    dname = rec.get("driver") or rec["key"].split("|")[1]
    hist = [tuple(e) for e in rec.get("history", [])]
    canon, viol, terminal, outcome = run_history(dname, hist)
    if verbose:
        d = get_driver(dname)
        print(d["src"])
        print("history:")
        for e in hist:
            print("  ", e if e[0] == "inv" else (e[0], e[1], e[2], d["domains"][e[2]][e[3]]))
        print("violation:", viol)
        print("def test_replay():\n    from nsl import Compiler, LinearIR, VM\n"
              f"    r = Compiler.Compiler().Compile({d['src']!r})\n    l = LinearIR.Linker(); l.AddModule(r.IRModule); p = l.Link()\n"
              "    vms = [VM.VirtualMachine(p), VM.VirtualMachine(p)]")
        for e in hist:
            if e[0] == "set":
                print(f"    vms[{e[1]}].SetGlobal({e[2]!r}, {d['domains'][e[2]][e[3]]!r})")
            else:
                print(f"    print(vms[{e[1]}].Invoke({e[2]!r}, d={e[3]}))")
    return viol is not None
