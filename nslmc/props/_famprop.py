"""Factory for properties decided by running a checker over program families."""
from .. import engine


def make(prop, checker, fams, rule, assumptions, level="exploration", extra=None, nontrivial_note="", replayer=None, bound=None):
    def run(tier, seed):
        tot, per_family = engine.run_families(prop, checker, fams(tier) if callable(fams) else fams, tier, seed, extra)
        samples = tot.samples[seed % max(1, len(tot.samples)):][:3] or tot.samples[:3]
        if not samples:
            samples = [{"note": "no case reached the sampling point"}]
        unspec = {k: v for k, v in tot.stats.items() if k.startswith("unspecified:")}
        mech = {k: v for k, v in tot.stats.items() if not k.startswith("unspecified:")}
        cov = {
            "evaluations": tot.evals,
            "distinct_nontrivial": tot.nontrivial,
            "rule": rule + " " + nontrivial_note,
            "samples": samples,
            "exhaustive": True,
            "bound": (bound(tier) if callable(bound) else bound) or {},
            "per_family": per_family,
            "unspecified_skipped": unspec,
            "mechanism_counters": mech,
            "failing_cases_per_key": dict(tot.counts),
        }
        return {"level": level, "coverage": cov, "failures": tot.fails, "assumptions": assumptions}

    def replay(rec, verbose=True):
        return (replayer or engine.replay_ref)(rec, verbose)

    return run, replay
