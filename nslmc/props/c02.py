"""C02 - optimisation never changes observable behaviour (differential, both configurations)."""
from .. import checkers
from ._famprop import make

def FAMS(tier):
    return (["E1"] if tier == "quick" else ["E"]) + ["S", "D", "R", "O", "K", "C", "V", "M", "U", "G", "CG", "H", "DF"]

run, replay = make(
    "C02", "diff", FAMS,
    rule="Every program of the families E, S, D, R (see C01), the call/vector families and the dedicated store->load context grid "
         "(O) is compiled with optimize=False and optimize=True; accept/reject decision, and on every input return value and all "
         "globals of the two modules on fresh VMs must agree; a failure on the optimised side only is a violation.",
    nontrivial_note="distinct_nontrivial counts (program, input) pairs of programs whose listing the optimiser actually changed "
                    "(measured by diffing the two listings).",
    assumptions=["no reference model: the unoptimised module is the oracle", "both sides raising is C05's business, not judged here"],
    replayer=checkers.replay_diff,
)
