"""C12 - no two visible variables share a name; references bind lexically."""
from .. import checkers
from ._famprop import make

run, replay = make(
    "C12", "gate", ["N"],
    rule="All scope skeletons with <=3 (thorough 4) scope-creating statements nested <=3 deep over {block, for with header "
         "declaration, while, do, if, if/else}, each scope with its own base declaration; then ONE additional declaration at EVERY "
         "statement position of every scope, its name drawn from EVERY name occurring in the program (parameter, global, "
         "function-level local, every block variable / for-header variable / loop counter whether visible, in a closed sibling, in an "
         "inner scope or declared later), a struct field name, the other function's parameter and local, and a fresh name. Oracle: "
         "rejected iff some declaration's name is visible at its point (scope-stack simulation on the skeleton). Accepted programs "
         "give every declaration a distinct initial value, bump each scope's own variable and read back all visible names at every "
         "scope exit into a trace compared with the lexically-binding reference interpreter. Plus fixed use-after-scope cases.",
    nontrivial_note="Non-trivial = decision cases plus specified (program, input) runs; all programs are distinct texts.",
    assumptions=["globals are declared before the functions (visibility of later module-level declarations is not fixed by the statement)",
                 "unbraced declaration-as-branch is excluded (R1)"],
    replayer=checkers.replay_gate,
    bound=lambda tier: {"scope_nodes": 3 if tier == "quick" else 4, "depth": 3},
)
