"""C17 - a stored IR module reloads to the same program."""
from .. import checkers
from ._famprop import make


def FAMS(tier):
    base = ["D", "R", "O", "K", "C", "V", "M", "U", "G", "CG", "H", "DF", "LONG"]
    # thorough: the expression and statement families at their quick bounds (their deep bounds are C01's and C02's; every case
    # here costs two nslc.py runs, two loads and a reader process) plus the type grid
    return base if tier == "quick" else base + ["E1", "S@quick", "T"]


run, replay = make(
    "C17", "store", FAMS,
    rule="Every accepted program of the listed families, at -O 0 and -O 1, is written by the REAL compiler driver (nslc.py executed with "
         "its command line through runpy; a pickle.dump interposer keeps the in-memory module), then loaded (a) in the same process by "
         "name and (b) in a separate interpreter process started with a different hash seed; instruction listing, metadata function "
         "list and VM results on the case's input grid must equal those of the in-memory module. Family LONG sweeps function bodies of "
         "1..400 statements and expression chains up to 120 operands (pickle recursion depth).",
    nontrivial_note="distinct_nontrivial = programs nslc.py actually wrote (distinct source x optimisation level).",
    assumptions=["the writer runs nslc.py in-process via runpy (argv patched, SystemExit caught); nslc.py/nslr.py as genuine subprocesses are exercised by family CLI"],
    replayer=checkers.replay_store,
)


# ------------------------------------------------------------------ genuine command lines
import os
import re
import shutil
import subprocess
import sys
import tempfile

from .. import pool, snapshot
from ..nslapi import compile_src, link, new_vm

CLI_EXPRS = ["a + b", "a - b * 2", "a * b + 3", "a / b", "a % 7 + b", "x * 2.0", "x + a", "a < b", "a >= b && b > 0", "x / 4.0 + b",
             "a + b + a + b", "(a + 1) * (b + 2)", "a - -3", "x * x - a", "a == b || x > 1.0", "a * 100 + b * 10 + 7", "b - a / 2", "x + 0.5", "a != 0", "a + 0x10"]


def w_cli(job):
    lo, hi, n_stmts = job
    root = snapshot.root()
    fails, counts = [], {}
    n = 0
    env = dict(os.environ)
    env["PYTHONPATH"] = root
    env["PYTHONHASHSEED"] = "7"
    for k in range(lo, hi):
        e = CLI_EXPRS[k % len(CLI_EXPRS)]
        opt = (k // len(CLI_EXPRS)) % 2
        pad = " ".join(f"a = a + {i % 3};" for i in range((k // (2 * len(CLI_EXPRS))) * n_stmts))
        if n_stmts >= 300:
            # a long chain through a LOCAL (every statement consumes the previous one's value once loads are forwarded), with the
            # same constants at its start and at its end
            pad = "int r = a + 1; " + "r = r + 3; r = r - 2; " * (n_stmts // 2) + "r = r + 1; a = a + r - r;"
        rt = "float" if "x" in e and not any(c in e for c in ("<", ">", "==", "!=", "&&", "||")) else "int"
        src = f"export function f(int a, int b, float x) -> {rt} {{ {pad} return {e}; }}\n"
        d = tempfile.mkdtemp(prefix="nslmc-cli-")
        try:
            open(os.path.join(d, "p.nsl"), "w").write(src)
            c = subprocess.run([sys.executable, os.path.join(root, "nslc.py"), "p.nsl", "-o", "p.nslir", "-O", str(opt)], cwd=d, env=env,
                               stdout=subprocess.PIPE, stderr=subprocess.PIPE, timeout=120)
            n += 1
            res = compile_src(src, {"optimize": bool(opt)})
            if c.returncode != 0 or not os.path.exists(os.path.join(d, "p.nslir")):
                if res.ok:
                    key = "C17|CLI|nslc-command-fails|exit=%s" % c.returncode
                    counts[key] = counts.get(key, 0) + 1
                    fails.append({"key": key, "source": src, "cli": k, "cli_stmts": n_stmts, "expected": "nslc.py writes p.nslir", "observed": (c.stdout + c.stderr).decode()[-300:]})
                continue
            for a, b, x in ((7, 2, 1.5), (-3, 5, 0.25)):
                r = subprocess.run([sys.executable, os.path.join(root, "nslr.py"), "run", "p.nslir", "f", str(a), str(b), str(x)], cwd=d, env=env,
                                   stdout=subprocess.PIPE, stderr=subprocess.PIPE, timeout=120)
                n += 1
                m = re.search(r"=\s*(\S+)\s*$", r.stdout.decode().strip().splitlines()[-1]) if r.stdout.strip() else None
                try:
                    want = new_vm(link(res.module)).Invoke("f", a=a, b=b, x=x)
                except BaseException as ex:
                    want = None
                got = None
                if m:
                    try:
                        got = float(m.group(1))
                    except ValueError:
                        got = m.group(1)
                if want is None:
                    continue
                if r.returncode != 0 or got is None or float(want) != got:
                    key = "C17|CLI|nslr-result-differs"
                    counts[key] = counts.get(key, 0) + 1
                    fails.append({"key": key, "source": src, "cli": k, "cli_stmts": n_stmts, "args": [a, b, x], "expected": repr(want), "observed": (r.stdout + r.stderr).decode()[-300:]})
        finally:
            shutil.rmtree(d, ignore_errors=True)
    return n, fails, counts


# ------------------------------------------------------------------ file names: the module that comes back is the one written to THAT file
FN_NAMES = ["p.nslir", "p", "p.bin", "p.O1", "p.nslir.bak", "q.nslir", "sub/p.nslir", "p.NSLIR"]
FN_SOURCES = ["export function f(int a) -> int { return a + 1; }\n",
              "export function f(int a) -> int { int t = a * 2; if (t > 3) { t = t - 1; } return t; }\nexport function g(float x) -> float { return x * 0.5; }\n"]


def w_names(job):
    """Two different modules are written under two names of the alphabet into ONE directory (either order, either optimisation
    level); every file is then loaded by exactly the path it was written to (relative and absolute) and must list like what was
    written to it.  A name without the file falls back to <name>.nslir only if no file of that exact name exists."""
    from ..nslapi import listing
    from nsl import LinearIR
    i, j, opt = job
    n1, n2 = FN_NAMES[i], FN_NAMES[j]
    fails, n = [], 0
    d = tempfile.mkdtemp(prefix="nslmc-fn-", dir=snapshot._tmp_root())
    old = os.getcwd()
    try:
        os.makedirs(os.path.join(d, "sub"))
        written = {}
        for name, src, o in ((n1, FN_SOURCES[0], opt), (n2, FN_SOURCES[1], 1 - opt)):
            open(os.path.join(d, "in.nsl"), "w").write(src)
            code, mod = checkers.run_nslc(["in.nsl", "-o", name, "-O", str(o)], d)
            if code != 0 or mod is None or not os.path.exists(os.path.join(d, name)):
                fails.append({"key": f"C17|names|nslc-does-not-write|{name}", "source": src, "names": [i, j, opt], "expected": f"nslc.py -o {name} writes the file", "observed": f"exit {code}"})
                return n, fails
            written[name] = listing(mod)
        os.chdir(d)
        for name, want in written.items():
            for how, path in (("relative", name), ("absolute", os.path.join(d, name))):
                n += 1
                try:
                    got = listing(LinearIR.FilesystemModuleLoader().Load(path))
                except BaseException as e:
                    got = f"<<{type(e).__name__}: {e}>>"
                if got != want:
                    other = [k for k in written if k != name][0]
                    what = "the-other-file" if got == written[other] else "something-else"
                    fails.append({"key": f"C17|names|load-returns-{what}|written={name};sibling={other}", "source": FN_SOURCES[0] + "----\n" + FN_SOURCES[1], "names": [i, j, opt],
                                  "expected": f"Load({name!r}) [{how}] lists like the module nslc.py wrote to {name}", "observed": got[:300]})
    finally:
        os.chdir(old)
        shutil.rmtree(d, ignore_errors=True)
    return n, fails


# ------------------------------------------------------------------ a file written again: what loads is what was written LAST
RW_LIBS = ["export function scale(int x) -> int { return x * 10; }\n",
           "export function scale(int x) -> int { return x * 800; }\n",
           "export function scale(int x) -> int { int t = x; if (t > 2) { t = t + 7; } return t; }\n"]
RW_EXPECT = [lambda a: a * 10 + 1, lambda a: a * 800 + 1, lambda a: (a + 7 if a > 2 else a) + 1]
RW_APP = 'import "lib";\nexport function main(int a) -> int { return scale(a) + 1; }\n'


def w_rewrite(job):
    """One process, one directory: lib.nslir is written by nslc.py, an application importing "lib" is compiled, stored, loaded and
    linked; then lib.nslir is written AGAIN with another body (every sequence of versions in the job) and the stored application is
    loaded and linked again with a fresh Linker.  After every write: Load("lib") / Load("lib.nslir") list like the module just
    written, and the linked program computes what the version just written computes."""
    from ..nslapi import listing
    from nsl import LinearIR
    seq, opt, how = job
    fails, n = [], 0
    d = tempfile.mkdtemp(prefix="nslmc-rw-", dir=snapshot._tmp_root())
    old = os.getcwd()

    def fail(kind, step, exp, obs):
        fails.append({"key": f"C17|rewrite|{kind}|step={min(step, 1)};link={how}", "rewrite": [list(seq), opt, how], "source": RW_APP + "---- lib versions written in order: " + repr(list(seq)),
                      "expected": exp, "observed": str(obs)[:300]})
    try:
        os.chdir(d)
        loader = LinearIR.FilesystemModuleLoader()
        for step, v in enumerate(seq):
            open("lib.nsl", "w").write(RW_LIBS[v])
            code, lib = checkers.run_nslc(["lib.nsl", "-o", "lib.nslir", "-O", str(opt)], d)
            if code != 0 or lib is None:
                fail("nslc-does-not-write", step, "nslc.py writes lib.nslir", f"exit {code}")
                break
            if step == 0:
                open("app.nsl", "w").write(RW_APP)
                code, app = checkers.run_nslc(["app.nsl", "-o", "app.nslir", "-O", str(opt)], d)
                if code != 0 or app is None:
                    fail("nslc-does-not-write", step, "nslc.py compiles the importing application", f"exit {code}")
                    break
            for name in ("lib", "lib.nslir", os.path.join(d, "lib.nslir")):
                n += 1
                try:
                    got = listing(LinearIR.FilesystemModuleLoader().Load(name))
                except BaseException as e:
                    got = f"<<{type(e).__name__}: {e}>>"
                if got != listing(lib):
                    fail("load-returns-an-earlier-version", step, f"Load({name!r}) lists like the module just written (version {v})", got)
            try:
                stored = LinearIR.FilesystemModuleLoader().Load("app.nslir")
                lk = {"default-loader": lambda: LinearIR.Linker(), "fresh-loader": lambda: LinearIR.Linker(loader=LinearIR.FilesystemModuleLoader()),
                      "same-loader-object": lambda: LinearIR.Linker(loader=loader)}[how]()
                lk.AddModule(stored)
                program = lk.Link()
                for a in (1, 5):
                    n += 1
                    r = new_vm(program).Invoke("main", a=a)
                    if r != RW_EXPECT[v](a):
                        fail("linked-program-uses-an-earlier-version", step, f"main({a}) == {RW_EXPECT[v](a)} (lib version {v} was written last)", f"main({a}) == {r!r}")
            except BaseException as e:
                fail("link-or-run-fails", step, "links and runs", f"{type(e).__name__}: {e}")
    finally:
        os.chdir(old)
        shutil.rmtree(d, ignore_errors=True)
    return n, fails


# ------------------------------------------------------------------ the same source written again with other options
RO_SOURCES = ["export function f(int a) -> int { int t = a; t = t + 1; return t * 2; }\n",
              "export function f(float x) -> float { float y = x * 2; return y + 1; }\n",
              "export function f(int a) -> int { return a + 1; }\n"]


def w_reoptions(job):
    """One directory, one output path: nslc.py compiles the SAME source to it again and again with a sequence of -O levels; after
    every run the file has to list like the module this source gives at the level of that run."""
    from ..nslapi import listing
    from nsl import LinearIR
    si, seq, outname = job
    src = RO_SOURCES[si]
    fails, n = [], 0
    d = tempfile.mkdtemp(prefix="nslmc-ro-", dir=snapshot._tmp_root())
    try:
        open(os.path.join(d, "p.nsl"), "w").write(src)
        for step, o in enumerate(seq):
            code, _ = checkers.run_nslc(["p.nsl", "-o", outname, "-O", str(o)], d)
            n += 1
            want = compile_src(src, {"optimize": bool(o)})
            try:
                got = listing(LinearIR.FilesystemModuleLoader().Load(os.path.join(d, outname)))
            except BaseException as e:
                got = f"<<{type(e).__name__}: {e}>>"
            if code != 0 or not want.ok or got != listing(want.module):
                other = compile_src(src, {"optimize": not o})
                what = "file-still-holds-the-other-level" if other.ok and got == listing(other.module) else "file-differs"
                fails.append({"key": f"C17|reoptions|{what}|step={min(step, 1)}", "reoptions": [si, list(seq), outname], "source": src,
                              "expected": f"after nslc.py -O {o} the file lists like the module compiled at that level", "observed": f"exit {code}; " + str(got)[:300]})
                break
    finally:
        shutil.rmtree(d, ignore_errors=True)
    return n, fails


_family_run = run


def run(tier, seed):
    out = _family_run(tier, seed)
    total = 20 if tier == "quick" else 300
    jobs = [(lo, min(total, lo + 2), 40) for lo in range(0, total, 2)]
    # long statement chains through the genuine command line (default recursion limit of a fresh interpreter): k = 40 + j gives
    # (40 + j) // 40 * n_stmts statements; -O 0 and -O 1
    jobs += [(40, 41, 300), (60, 61, 300), (40, 41, 600), (60, 61, 600), (40, 41, 1000), (60, 61, 1000)]
    res = pool.pmap(w_cli, jobs)
    n = 0
    for a, fl, c in res:
        n += a
        seen = {f["key"] for f in out["failures"]}
        for f in fl:
            if f["key"] not in seen:
                out["failures"].append(f)
                seen.add(f["key"])
        for k, v in c.items():
            out["coverage"]["failing_cases_per_key"][k] = out["coverage"]["failing_cases_per_key"].get(k, 0) + v
    out["coverage"]["evaluations"] += n
    out["coverage"]["distinct_nontrivial"] += n
    out["coverage"]["per_family"]["CLI(subprocess nslc.py + nslr.py)"] = n
    jobs = [(i, j, o) for i in range(len(FN_NAMES)) for j in range(len(FN_NAMES)) if i != j for o in (0, 1)]
    m = 0
    seen = {f["key"] for f in out["failures"]}
    for a, fl in pool.pmap(w_names, jobs, hermetic=False):
        m += a
        for f in fl:
            out["coverage"]["failing_cases_per_key"][f["key"]] = out["coverage"]["failing_cases_per_key"].get(f["key"], 0) + 1
            if f["key"] not in seen:
                out["failures"].append(f)
                seen.add(f["key"])
    out["coverage"]["evaluations"] += m
    out["coverage"]["distinct_nontrivial"] += m
    out["coverage"]["per_family"]["names(ordered pairs of output file names in one directory x -O)"] = m
    import itertools
    seqs = [q for L in (1, 2, 3) for q in itertools.product(range(3), repeat=L) if all(x != y for x, y in zip(q, q[1:]))]
    jobs = [(q, o, how) for q in seqs for o in (0, 1) for how in ("default-loader", "fresh-loader", "same-loader-object")]
    m = 0
    for a, fl in pool.pmap(w_rewrite, jobs):      # hermetic: a process-wide cache must not carry over from another job
        m += a
        for f in fl:
            out["coverage"]["failing_cases_per_key"][f["key"]] = out["coverage"]["failing_cases_per_key"].get(f["key"], 0) + 1
            if f["key"] not in seen:
                out["failures"].append(f)
                seen.add(f["key"])
    out["coverage"]["evaluations"] += m
    out["coverage"]["distinct_nontrivial"] += m
    out["coverage"]["per_family"]["rewrite(sequences of <=3 versions of an imported module written to the same file x -O x loader)"] = m
    jobs = [(si, q, nm) for si in range(len(RO_SOURCES)) for L in (1, 2, 3) for q in itertools.product((0, 1), repeat=L) for nm in ("p.nslir", "p.bin")]
    m = 0
    for a, fl in pool.pmap(w_reoptions, jobs):
        m += a
        for f in fl:
            out["coverage"]["failing_cases_per_key"][f["key"]] = out["coverage"]["failing_cases_per_key"].get(f["key"], 0) + 1
            if f["key"] not in seen:
                out["failures"].append(f)
                seen.add(f["key"])
    out["coverage"]["evaluations"] += m
    out["coverage"]["distinct_nontrivial"] += m
    out["coverage"]["per_family"]["reoptions(the same source compiled to the same path with every sequence of <=3 optimisation levels)"] = m
    return out


_family_replay = replay


def replay(rec, verbose=True):
    if "reoptions" in rec:
        si, q, nm = rec["reoptions"]
        n, fl = w_reoptions((si, tuple(q), nm))
        if verbose:
            print(fl)
        return any(f["key"] == rec["key"] for f in fl)
    if "rewrite" in rec:
        q, o, how = rec["rewrite"]
        n, fl = w_rewrite((tuple(q), o, how))
        if verbose:
            print(fl)
        return any(f["key"] == rec["key"] for f in fl)
    if "names" in rec:
        n, fl = w_names(tuple(rec["names"]))
        if verbose:
            print(fl)
        return any(f["key"] == rec["key"] for f in fl)
    if "cli" in rec:
        n, fl, _ = w_cli((rec["cli"], rec["cli"] + 1, rec.get("cli_stmts", 40)))
        if verbose:
            print(rec["source"], fl)
        return bool(fl)
    return _family_replay(rec, verbose)
