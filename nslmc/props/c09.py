"""C09 - operator typing: accepted operand combinations, result type, conversions.

(1) complete enumeration of types.ResolveBinaryExpressionType over 13 x 63 x 63 triples of the
    internal type universe; (2) all 13 x 14 x 14 spellable triples end to end (accept/reject of a
    one-line function, static type of the returned value in the IR, overload picked by a probe)."""
import itertools

from .. import pool
from ..lang import BINOPS, CMPOPS
from ..nslapi import compile_src, link, new_vm, classify

LEVEL = "exploration"
COMPS = ("float", "int", "uint")


def universe():
    out = []
    for c in COMPS:
        out.append(("s", c))
        for n in range(1, 5):
            out.append(("v", c, n))
        for r in range(1, 5):
            for k in range(1, 5):
                out.append(("m", c, r, k))
    return out


def wider(a, b):
    return "float" if "float" in (a, b) else "int" if "int" in (a, b) else "uint"


def oracle(op, L, R):
    """-> ('accept', result, left operand type, right operand type) | ('reject',) | ('unspec', why)"""
    for t in (L, R):
        if t[0] == "v" and t[2] == 1:
            return ("unspec", "1-component vector")
    c = wider(L[1], R[1])
    wc = lambda t: (t[0], c) + tuple(t[2:])
    if L[0] == "s" and R[0] == "s":
        res = ("s", "int") if op in CMPOPS else ("s", c)
        return ("accept", res, ("s", c), ("s", c))
    if op in CMPOPS:
        if L[0] == "v" and R[0] == "v" and L[2] == R[2]:
            return ("accept", ("v", "int", L[2]), wc(L), wc(R))
        if L[0] == "m" and R[0] == "m":
            return ("unspec", "matrix comparison")
        return ("reject",)
    if op in ("+", "-", "%", "&&", "||"):
        if L[0] == R[0] and L[0] in ("v", "m") and L[2:] == R[2:]:
            return ("accept", wc(L), wc(L), wc(R))
        return ("reject",)
    if op == "/":
        if R[0] == "s":
            return ("accept", wc(L), wc(L), ("s", c))
        return ("reject",)
    if op == "*":
        if R[0] == "s":
            return ("accept", wc(L), wc(L), ("s", c))
        if L[0] == "s":
            return ("accept", wc(R), ("s", c), wc(R))
        if L[0] == "v" and R[0] == "m":
            # "a matrix times a matrix or vector": the left operand has to be a matrix.  Only if the vector is read as an
            # N x 1 matrix could N x 1 times 1 x C be meant; every other vector x matrix has disagreeing inner dimensions anyway
            if R[2] == 1:
                return ("unspec", "vector x one-row matrix")
            return ("reject",)
        if L[0] == "m" and R[0] == "m":
            if L[3] != R[2]:
                return ("reject",)
            if R[3] == 1:
                return ("unspec", "matrix product with a single result column")
            return ("accept", ("m", c, L[2], R[3]), wc(L), wc(R))
        if L[0] == "m" and R[0] == "v":
            if L[3] != R[2]:
                return ("reject",)
            return ("accept", ("v", c, L[2]), wc(L), wc(R))
        return ("reject",)
    raise ValueError(op)


def to_nsl(t):
    from nsl import types as T

    sc = {"float": T.Float, "int": T.Integer, "uint": T.UnsignedInteger}[t[1]]()
    if t[0] == "s":
        return sc
    if t[0] == "v":
        return T.VectorType(sc, t[2])
    return T.MatrixType(sc, t[2], t[3])


def from_nsl(x):
    from nsl import types as T

    if x is None:
        return None
    cn = {"Float": "float", "Integer": "int", "UnsignedInteger": "uint"}
    if isinstance(x, T.ScalarType):
        return ("s", cn[type(x).__name__])
    if isinstance(x, T.VectorType):
        return ("v", cn[type(x.GetComponentType()).__name__], x.GetComponentCount())
    if isinstance(x, T.MatrixType):
        return ("m", cn[type(x.GetComponentType()).__name__], x.GetRowCount(), x.GetColumnCount())
    return ("?", type(x).__name__)


def shape_class(t):
    return {"s": "scalar", "v": "vector", "m": "matrix"}[t[0]]


def show(t):
    if t is None:
        return "None"
    if t[0] == "s":
        return t[1]
    if t[0] == "v":
        return f"{t[1]}{t[2]}"
    if t[0] == "m":
        return f"{t[1]}{t[2]}x{t[3]}"
    return str(t)


def opclass(op):
    return "cmp" if op in CMPOPS else op


def w_interface(job):
    from nsl import op as O, types as T

    lo, hi = job
    U = universe()
    fails, counts = [], {}
    n = nontriv = 0
    outcomes = {}
    for idx in range(lo, hi):
        op = BINOPS[idx // (63 * 63)]
        L = U[(idx // 63) % 63]
        R = U[idx % 63]
        want = oracle(op, L, R)
        n += 1
        try:
            with pool.quiet():
                et = T.ResolveBinaryExpressionType(O.StrToOp(op), to_nsl(L), to_nsl(R))
            got = ("accept", from_nsl(et.GetReturnType()), from_nsl(et.GetOperandType(0)), from_nsl(et.GetOperandType(1)))
            if None in got[1:]:
                got = ("none-type",) + got[1:]
        except BaseException as e:
            got = ("reject", type(e).__name__)
        outcomes[got[0]] = outcomes.get(got[0], 0) + 1
        if want[0] == "unspec":
            outcomes["unspec:" + want[1]] = outcomes.get("unspec:" + want[1], 0) + 1
            continue
        nontriv += 1
        ok = (want[0] == "reject" and got[0] == "reject") or (want[0] == "accept" and got == want)
        if not ok:
            if want[0] == "reject":
                kind = "accepted-must-reject" if got[0] == "accept" else "none-type-must-reject"
            elif got[0] == "reject":
                kind = "rejected-must-accept"
            elif got[0] == "none-type":
                kind = "none-operand-type"
            elif got[1] != want[1]:
                kind = "wrong-result-type"
            else:
                kind = "wrong-operand-conversion"
            key = f"C09|interface|{kind}|op={opclass(op)}|{shape_class(L)},{shape_class(R)}"
            counts[key] = counts.get(key, 0) + 1
            if counts[key] <= 2:
                fails.append({"key": key, "part": "interface", "op": op, "left": L, "right": R,
                              "expected": _fmt(want), "observed": _fmt(got)})
    return n, nontriv, fails, counts, outcomes


def _fmt(o):
    if o[0] == "accept" or o[0] == "none-type":
        return f"{o[0]}: result {show(o[1])}, operands ({show(o[2])}, {show(o[3])})"
    return " ".join(str(x) for x in o)


# ------------------------------------------------------------------ end to end
SPELL = [("s", "int"), ("s", "float"), ("s", "uint")] + [("v", c, n) for c in ("float", "int", "uint") for n in (2, 3, 4)] + \
        [("m", "float", 3, 3), ("m", "float", 4, 4)]


def ir_type(t):
    from nsl import LinearIR as L

    if isinstance(t, L.FloatType):
        return ("s", "float")
    if isinstance(t, L.IntegerType):
        return ("s", "uint" if t.Unsigned else "int")
    if isinstance(t, L.VectorType):
        return ("v", ir_type(t.ElementType)[1], t.Size)
    if isinstance(t, L.MatrixType):
        return ("m", ir_type(t.ElementType)[1], t.RowCount, t.ColumnCount)
    return ("?", type(t).__name__)


def probe_source():
    lines = []
    for i, t in enumerate(SPELL):
        lines.append(f"function probe({show(t)} p) -> int {{ return {i + 1}; }}")
    return "\n".join(lines) + "\n"


def sample_value(t):
    base = 2.0 if t[1] == "float" else 2
    if t[0] == "s":
        return base
    if t[0] == "v":
        return [base + i for i in range(t[2])]
    return [[base + i + j for j in range(t[3])] for i in range(t[2])]


def w_e2e(job):
    from nsl import LinearIR as IR

    lo, hi = job
    fails, counts = [], {}
    n = nontriv = 0
    outcomes = {}
    for idx in range(lo, hi):
        op = BINOPS[idx // (14 * 14)]
        L = SPELL[(idx // 14) % 14]
        R = SPELL[idx % 14]
        want = oracle(op, L, R)
        n += 1
        if want[0] == "unspec":
            continue
        nontriv += 1
        rt = want[1] if want[0] == "accept" else L
        src = f"export function f({show(L)} a, {show(R)} b) -> {show(rt)} {{ return a {op} b; }}\n"
        res = compile_src(src)
        accepted = res.ok
        kind = None
        detail = res.cls() + " " + (res.msg or "")
        if want[0] == "reject":
            if res.status in ("ok", "internal"):
                kind = "accepted-must-reject" if res.ok else "typing-accepted-then-internal-error"
        else:
            if res.status == "reject":
                kind = "rejected-must-accept"
            elif res.status == "internal":
                kind = "typing-accepted-then-internal-error"
            else:
                # static type of the returned value and operand conversions from the IR
                fn = res.module.Functions["f"]
                ret = [i for i in fn.Instructions if isinstance(i, IR.ReturnInstruction)][0]
                got_t = ir_type(ret.Value.Type)
                if got_t != want[1]:
                    kind = "wrong-result-type"
                    detail = f"returned value has IR type {show(got_t)}"
                else:
                    bi = ret.Value
                    ops = getattr(bi, "Values", None)
                    if ops is not None and len(ops) == 2 and isinstance(bi, IR.BinaryInstruction):
                        got_ops = (ir_type(ops[0].Type), ir_type(ops[1].Type))
                        # operand order inside the IR instruction is not part of the statement (x * v may be emitted as v * x)
                        if got_ops != (want[2], want[3]) and not (op == "*" and got_ops == (want[3], want[2])):
                            kind = "wrong-operand-conversion"
                            detail = f"operation operands have IR types ({show(got_ops[0])}, {show(got_ops[1])})"
                if kind is None:
                    # second observation: which probe overload the expression selects, run on the VM
                    src2 = probe_source() + f"export function f({show(L)} a, {show(R)} b) -> int {{ return probe(a {op} b); }}\n"
                    r2 = compile_src(src2)
                    if not r2.ok:
                        kind = "probe-call-not-compiled"
                        detail = r2.cls() + " " + (r2.msg or "")
                    else:
                        exp = SPELL.index(want[1]) + 1 if want[1] in SPELL else None
                        # static: the mangled name of the resolved overload in the caller's call instruction
                        calls = [i for i in r2.module.Functions["f"].Instructions if isinstance(i, IR.CallInstruction)]
                        if exp is not None and (len(calls) != 1 or calls[0].Function != f"@probe->int`{show(want[1])}"):
                            kind = "probe-selects-other-overload"
                            detail = f"call instruction names {[c.Function for c in calls]}"
                        elif calls and calls[0].Arguments and isinstance(calls[0].Arguments[0], IR.BinaryInstruction) and len(calls[0].Arguments[0].Values) == 2 and (
                                (ir_type(calls[0].Arguments[0].Values[0].Type), ir_type(calls[0].Arguments[0].Values[1].Type)) not in ((want[2], want[3]), (want[3], want[2]) if op == "*" else (want[2], want[3]))):
                            # the operands are converted wherever the expression stands - also as the argument of a call
                            kind = "wrong-operand-conversion-in-call-argument"
                            o_ = calls[0].Arguments[0].Values
                            detail = f"operation operands have IR types ({show(ir_type(o_[0].Type))}, {show(ir_type(o_[1].Type))})"
                        else:
                            # dynamic: the overload that runs (a failing run is C05's business, not judged here)
                            try:
                                with pool.time_limit(2.0):
                                    v = new_vm(link(r2.module)).Invoke("f", a=sample_value(L), b=sample_value(R))
                            except BaseException as e:
                                v = None
                                outcomes["probe-run-unavailable"] = outcomes.get("probe-run-unavailable", 0) + 1
                            if exp is not None and v is not None and v != exp:
                                kind = "probe-runs-other-overload"
                                detail = f"probe(a {op} b) returned {v}, expected {exp}"
        outcomes[res.status] = outcomes.get(res.status, 0) + 1
        if kind:
            key = f"C09|e2e|{kind}|op={opclass(op)}|{shape_class(L)},{shape_class(R)}"
            counts[key] = counts.get(key, 0) + 1
            if counts[key] <= 2:
                fails.append({"key": key, "part": "e2e", "op": op, "left": L, "right": R, "source": src,
                              "expected": _fmt(want), "observed": detail})
    return n, nontriv, fails, counts, outcomes

def w_nested(job):
    """The operation as an OPERAND of another one whose operand type it already has: `(a OP b) + c` and `c + (a OP b)` with c of
    the result type.  The operands of the inner operation are converted exactly as when it stands alone."""
    from nsl import LinearIR as IR

    lo, hi = job
    fails, counts, outcomes = [], {}, {}
    n = nontriv = 0
    for idx in range(lo, hi):
        op = BINOPS[idx // (14 * 14)]
        L, R = SPELL[(idx // 14) % 14], SPELL[idx % 14]
        want = oracle(op, L, R)
        n += 1
        if want[0] != "accept" or want[1] not in SPELL or oracle("+", want[1], want[1])[0] != "accept":
            continue
        if "m" in (L[0], R[0], want[1][0]):
            continue      # matrix operations are lowered row by row: no single instruction carries the operand types
        nontriv += 1
        T_ = want[1]
        for side in ("left", "right"):
            e = f"(a {op} b) + c" if side == "left" else f"c + (a {op} b)"
            src = f"export function f({show(L)} a, {show(R)} b, {show(T_)} c) -> {show(T_)} {{ return {e}; }}\n"
            res = compile_src(src)
            outcomes[res.status] = outcomes.get(res.status, 0) + 1
            kind = detail = None
            if not res.ok:
                kind, detail = "nested-form-not-compiled", res.cls() + " " + (res.msg or "")
            else:
                fn = res.module.Functions["f"]
                bins = [i for i in fn.Instructions if isinstance(i, IR.BinaryInstruction) and len(getattr(i, "Values", ())) == 2]
                ret = [i for i in fn.Instructions if isinstance(i, IR.ReturnInstruction)][0]
                inner = [i for i in bins if i is not ret.Value]
                if len(inner) >= 1:
                    got = (ir_type(inner[0].Values[0].Type), ir_type(inner[0].Values[1].Type))
                    if got != (want[2], want[3]) and not (op == "*" and got == (want[3], want[2])):
                        kind, detail = "wrong-operand-conversion-in-nested-operation", f"inner operation operands have IR types ({show(got[0])}, {show(got[1])})"
            if kind:
                key = f"C09|nested|{kind}|op={opclass(op)}|{shape_class(L)},{shape_class(R)}|{side}"
                counts[key] = counts.get(key, 0) + 1
                if counts[key] <= 2:
                    fails.append({"key": key, "part": "nested", "op": op, "left": L, "right": R, "source": src, "expected": _fmt(want), "observed": detail})
    return n, nontriv, fails, counts, outcomes


def w_pairs(job):
    """Two operators on the SAME operand types in ONE module: `first` uses an operator the rule table accepts, `f` any other
    operator; the decision on the module and the type of f's result must be those of f's operator alone."""
    from nsl import LinearIR as IR

    lo, hi = job
    fails, counts, outcomes = [], {}, {}
    n = nontriv = 0
    for idx in range(lo, hi):
        L, R = SPELL[idx // 14], SPELL[idx % 14]
        for op1 in BINOPS:
            w1 = oracle(op1, L, R)
            if w1[0] != "accept":
                continue
            for op2 in BINOPS:
                if op2 == op1:
                    continue
                want = oracle(op2, L, R)
                n += 1
                if want[0] == "unspec":
                    continue
                nontriv += 1
                rt = want[1] if want[0] == "accept" else L
                src = (f"export function first({show(L)} a, {show(R)} b) -> {show(w1[1])} {{ return a {op1} b; }}\n"
                       f"export function f({show(L)} a, {show(R)} b) -> {show(rt)} {{ return a {op2} b; }}\n")
                res = compile_src(src)
                outcomes[res.status] = outcomes.get(res.status, 0) + 1
                kind, detail = None, res.cls() + " " + (res.msg or "")
                if want[0] == "reject":
                    if res.status in ("ok", "internal"):
                        kind = "accepted-must-reject"
                elif res.status != "ok":
                    kind = "rejected-must-accept"
                else:
                    ret = [i for i in res.module.Functions["f"].Instructions if isinstance(i, IR.ReturnInstruction)][0]
                    if ir_type(ret.Value.Type) != want[1]:
                        kind, detail = "wrong-result-type", f"returned value has IR type {show(ir_type(ret.Value.Type))}"
                if kind:
                    key = f"C09|pairs|{kind}|op={opclass(op2)}-after-{opclass(op1)}|{shape_class(L)},{shape_class(R)}"
                    counts[key] = counts.get(key, 0) + 1
                    if counts[key] <= 2:
                        fails.append({"key": key, "part": "pairs", "op": op2, "first_op": op1, "left": L, "right": R, "source": src, "expected": _fmt(want), "observed": detail})
    return n, nontriv, fails, counts, outcomes


def rejob(x):
    """Re-execute one worker job (used by ./check --rejob for history-dependent failures)."""
    def tup(v):
        return tuple(tup(y) for y in v) if isinstance(v, list) else v
    return globals()[x[0]](tup(x[1]))


def _dispatch(job):
    fn, arg = job
    return fn(arg)


def run(tier, seed):
    jobs = []
    total = 13 * 63 * 63
    for lo in range(0, total, 4096):
        jobs.append((w_interface, (lo, min(total, lo + 4096))))
    te = 13 * 14 * 14
    for lo in range(0, te, 80):
        jobs.append((w_e2e, (lo, min(te, lo + 80))))
    for lo in range(0, 14 * 14, 7):
        jobs.append((w_pairs, (lo, lo + 7)))
    for lo in range(0, te, 160):
        jobs.append((w_nested, (lo, min(te, lo + 160))))
    rot = seed % len(jobs) if seed else 0
    jobs = jobs[rot:] + jobs[:rot]
    res = pool.pmap(_dispatch, jobs)
    n = nt = 0
    failures, counts, outcomes = [], {}, {}
    per = {}
    for (fn, arg), (a, b, fl, c, o) in zip(jobs, res):
        for _f in fl:
            if isinstance(_f, dict) and "key" in _f:
                _f.setdefault("job", {"fn": "nslmc.props.c09:rejob", "arg": [fn.__name__, arg]})
        n += a
        nt += b
        per[fn.__name__] = per.get(fn.__name__, 0) + a
        failures += fl
        for k, v in c.items():
            counts[k] = counts.get(k, 0) + v
        for k, v in o.items():
            outcomes[fn.__name__ + ":" + k] = outcomes.get(fn.__name__ + ":" + k, 0) + v
    seen, uniq = set(), []
    for f in failures:
        if f["key"] not in seen:
            seen.add(f["key"])
            uniq.append(f)
    U = universe()
    s = seed % 63
    samples = [{"op": "*", "left": show(U[s]), "right": show(U[(s * 7 + 3) % 63]), "oracle": _fmt(oracle("*", U[s], U[(s * 7 + 3) % 63]))},
               {"op": "<", "left": "int2", "right": "float2", "oracle": _fmt(oracle("<", ("v", "int", 2), ("v", "float", 2)))},
               {"e2e": "export function f(float3x3 a, float3 b) -> float3 { return a * b; }"}]
    cov = {"evaluations": n, "distinct_nontrivial": nt,
           "rule": "complete: all 13 x 63 x 63 (operator, left, right) triples of the internal type universe (3 component types x "
                   "{scalar, vector 1-4, matrix 1-4 x 1-4}) through types.ResolveBinaryExpressionType, and all 13 x 14 x 14 spellable "
                   "triples end to end (compile decision, IR type of the returned value and of the operation's operands, overload "
                   "selected by probe(a OP b) on the VM) against a rule table transcribed from the statement; plus, for every spellable pair of operand types, every ordered pair of different operators in ONE module (the first one accepted by the table): the decision and result type of the second must not depend on the first. Non-trivial = triples "
                   "the statement specifies (not UNSPECIFIED: 1-component vectors, matrix comparison, vector x matrix, single-column "
                   "matrix products).",
           "samples": samples, "exhaustive": True, "bound": {"interface_triples": total, "e2e_triples": te},
           "per_part": per, "outcomes": outcomes, "failing_cases_per_key": counts}
    return {"level": LEVEL, "coverage": cov, "failures": uniq,
            "assumptions": ["'converted to the component type of the result' is read, for comparisons, as the common promoted component type of the operands",
                            "a failure after the AST gate (INTERNAL) counts as 'not accepted' end to end"]}


def replay(rec, verbose=True):
    L, R = tuple(rec["left"]), tuple(rec["right"])
    if rec["part"] == "nested":
        idx = BINOPS.index(rec["op"]) * 14 * 14 + SPELL.index(L) * 14 + SPELL.index(R)
        _, _, fl, _, _ = w_nested((idx, idx + 1))
        fl = [f for f in fl if f["key"] == rec["key"]]
    elif rec["part"] == "pairs":
        idx = SPELL.index(L) * 14 + SPELL.index(R)
        _, _, fl, _, _ = w_pairs((idx, idx + 1))
        fl = [f for f in fl if f["key"] == rec["key"]]
    elif rec["part"] == "interface":
        idx = BINOPS.index(rec["op"]) * 63 * 63 + universe().index(L) * 63 + universe().index(R)
        _, _, fl, _, _ = w_interface((idx, idx + 1))
    else:
        idx = BINOPS.index(rec["op"]) * 14 * 14 + SPELL.index(L) * 14 + SPELL.index(R)
        _, _, fl, _, _ = w_e2e((idx, idx + 1))
    if verbose:
        print(rec.get("source") or f"ResolveBinaryExpressionType({rec['op']!r}, {show(L)}, {show(R)})")
        print("expected:", rec["expected"], "\nobserved:", fl[0]["observed"] if fl else "as expected")
    return bool(fl)
