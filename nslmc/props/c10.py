"""C10 - overload resolution picks the unique best viable candidate.

(1) interface: every ordered set of 1-3 distinct signatures with <=2 parameters over a 6-type
    universe x every argument list, through Scope.RegisterFunction / FindFunction;
(2) end to end: ordered overload sets as modules, one exported caller per argument list; the
    chosen overload is read statically (mangled name in the call instruction) and dynamically
    (constant returned by the VM)."""
import itertools

from .. import pool
from ..nslapi import classify, compile_src, link, new_vm

LEVEL = "exploration"
U6 = ["int", "float", "uint", "int2", "float2", "float3"]


def kind(t):
    return ("v", int(t[-1])) if t[-1].isdigit() else ("s", 0)


def convertible(a, p):
    return kind(a) == kind(p)


def signatures(U):
    return [()] + [(a,) for a in U] + [(a, b) for a in U for b in U]


def oracle(sigs, args):
    """-> index of the chosen signature in sigs, or None (reject)."""
    best, bestcost, tie = None, None, False
    for i, s in enumerate(sigs):
        if len(s) != len(args) or not all(convertible(a, p) for a, p in zip(args, s)):
            continue
        cost = sum(1 for a, p in zip(args, s) if a != p)
        if bestcost is None or cost < bestcost:
            best, bestcost, tie = i, cost, False
        elif cost == bestcost:
            tie = True
    return None if best is None or tie else best


def ordered_sets(sigs, maxn):
    for n in range(1, maxn + 1):
        for combo in itertools.combinations(range(len(sigs)), n):
            for perm in itertools.permutations(combo):
                yield perm


def nsl_type(t):
    from nsl import types as T

    return T.BuiltinTypeFactory(t)


def w_interface(job):
    """A slice of the ordered sets (by index of the first element)."""
    from nsl import ast, types as T

    first, maxn = job
    sigs = signatures(U6)
    fails, counts = [], {}
    n = nontriv = 0
    outcomes = {"resolved": 0, "rejected": 0}
    cache = {}

    def fobj(si, tag):
        s = sigs[si]
        f = T.Function("h", T.Integer(), [ast.Argument(nsl_type(t), f"p{k}") for k, t in enumerate(s)])
        f.Resolve(T.Scope())
        f.tag = tag
        return f

    for perm in ordered_sets(sigs, maxn):
        if perm[0] != first:
            continue
        root = T.Scope()
        objs = []
        for si in perm:
            f = fobj(si, si)
            root.RegisterFunction("h", f)
            objs.append(f)
        inner = T.Scope(T.Scope(root))  # calls are resolved from nested (function/block) scopes
        ps = [sigs[i] for i in perm]
        for args in sigs:
            n += 1
            want = oracle(ps, args)
            try:
                with pool.quiet():
                    got = inner.FindFunction("h", [nsl_type(a) for a in args])
                gi = [k for k, o in enumerate(objs) if o is got]
                gi = gi[0] if gi else "foreign"
            except BaseException as e:
                gi = None
            outcomes["resolved" if gi is not None else "rejected"] += 1
            if len([s for s in ps if len(s) == len(args)]) >= 1:
                nontriv += 1
            if gi != want:
                cls = _cls(ps, args, want, gi)
                key = f"C10|interface|{cls}"
                counts[key] = counts.get(key, 0) + 1
                if counts[key] <= 2:
                    fails.append({"key": key, "part": "interface", "overloads": [list(s) for s in ps], "args": list(args),
                                  "expected": "reject" if want is None else f"overload {list(ps[want])}",
                                  "observed": "reject" if gi is None else f"overload {list(ps[gi]) if isinstance(gi, int) else gi}"})
    # unknown name
    try:
        with pool.quiet():
            T.Scope(T.Scope()).FindFunction("nosuch", [])
        counts["C10|interface|unknown-name-accepted"] = 1
        fails.append({"key": "C10|interface|unknown-name-accepted", "part": "interface", "overloads": [], "args": [],
                      "expected": "reject", "observed": "resolved"})
    except BaseException:
        pass
    return n, nontriv, fails, counts, outcomes


def _cls(ps, args, want, got):
    viable = [s for s in ps if len(s) == len(args) and all(convertible(a, p) for a, p in zip(args, s))]
    nonviable_same_arity = [s for s in ps if len(s) == len(args) and s not in viable]
    if want is None and got is not None:
        if not viable:
            return "resolved-without-viable-candidate|" + ("arity-match-but-inconvertible-argument" if nonviable_same_arity else "no-arity-match")
        return "ambiguity-not-detected"
    if want is not None and got is None:
        return "rejected-with-unique-best|" + ("non-viable-candidate-in-set" if nonviable_same_arity else "all-same-arity-viable")
    return "wrong-candidate|" + ("non-viable-candidate-in-set" if nonviable_same_arity else "all-same-arity-viable")


# ------------------------------------------------------------------ end to end
def e2e_universe(tier):
    if tier == "vectors":
        return ["int2", "float2", "float3", "int3"]
    return ["int", "float", "float2"] if tier == "quick" else ["int", "float", "uint", "int2", "float2"]


def sample(t):
    if t[-1].isdigit():
        return [(1.0 if t.startswith("float") else 1) + i for i in range(int(t[-1]))]
    return 1.5 if t == "float" else 2


def overload_src(ps, start=0):
    return "".join(f"function h({', '.join(f'{t} p{k}' for k, t in enumerate(s))}) -> int {{ return {i + 1}; }}\n" for i, s in enumerate(ps, start))


PLACEMENTS = ("callers-last", "callers-first", "callers-after-first-overload")


def place(ps, callers, placement):
    """Where the calling functions stand relative to the overloads they call (all functions of a module are declared before any
    body is typed, so the position must not matter)."""
    if placement == "callers-last":
        return overload_src(ps) + callers
    if placement == "callers-first":
        return callers + overload_src(ps)
    return overload_src(ps[:1]) + callers + overload_src(ps[1:], 1)


def caller_src(j, args):
    params = ", ".join(f"{t} x{k}" for k, t in enumerate(args))
    call = ", ".join(f"x{k}" for k in range(len(args)))
    return f"export function c{j}({params}) -> int {{ return h({call}); }}\n"


def mangled(s):
    return "@h->int`" + ",".join(s)


def w_e2e(job):
    from nsl import LinearIR as IR

    tier, first, maxn = job
    U = e2e_universe(tier)
    sigs = signatures(U)
    if tier == "vectors":
        sigs = [s_ for s_ in sigs if len(s_) == 1]      # one parameter: the vector types meet as arguments of ONE name in one module
    fails, counts = [], {}
    n = nontriv = 0
    outcomes = {}

    def note(k):
        outcomes[k] = outcomes.get(k, 0) + 1

    def fail(cls, ps, args, src, exp, obs):
        key = f"C10|e2e|{cls}"
        counts[key] = counts.get(key, 0) + 1
        if counts[key] <= 2:
            fails.append({"key": key, "part": "e2e", "overloads": [list(s) for s in ps], "args": list(args), "source": src,
                          "expected": exp, "observed": obs})

    for perm in ordered_sets(sigs, maxn):
        if perm[0] != first:
            continue
        ps = [sigs[i] for i in perm]
        acc = [(j, a, oracle(ps, a)) for j, a in enumerate(sigs)]
        good = [(j, a, w) for j, a, w in acc if w is not None]
        bad = [(j, a) for j, a, w in acc if w is None]
        for placement in (PLACEMENTS if len(ps) > 1 else PLACEMENTS[:2]):
            tag = "" if placement == "callers-last" else "|" + placement
            n += len(acc)
            nontriv += len(acc)
            # accepted call sites packed into one module (bisected on failure)
            def run_pack(items):
                src = place(ps, "".join(caller_src(j, a) for j, a, _ in items), placement)
                res = compile_src(src)
                if not res.ok:
                    if len(items) > 1:
                        h = len(items) // 2
                        run_pack(items[:h])
                        run_pack(items[h:])
                    else:
                        j, a, w = items[0]
                        note("reject")
                        fail("rejected-with-unique-best|" + _sub(ps, a) + tag, ps, a, src, f"accepted, resolves to h({', '.join(ps[w])})", res.cls() + " " + (res.msg or ""))
                    return
                try:
                    program = link(res.module)
                except BaseException as e:
                    program = None
                for j, a, w in items:
                    note("ok")
                    calls = [i for i in res.module.Functions[f"c{j}"].Instructions if isinstance(i, IR.CallInstruction)]
                    if len(calls) != 1 or calls[0].Function != mangled(ps[w]):
                        fail("wrong-candidate-static|" + _sub(ps, a) + tag, ps, a, place(ps, caller_src(j, a), placement), f"call to {mangled(ps[w])}",
                             f"call instruction names {[c.Function for c in calls]}")
                        continue
                    if program is None:
                        continue
                    try:
                        with pool.time_limit(2.0):
                            v = new_vm(program).Invoke(f"c{j}", **{f"x{k}": sample(t) for k, t in enumerate(a)})
                    except BaseException as e:
                        note("dynamic-observation-unavailable:" + type(e).__name__)
                        continue
                    if v != w + 1:
                        fail("wrong-candidate-runs|" + _sub(ps, a) + tag, ps, a, place(ps, caller_src(j, a), placement), f"returns {w + 1}", f"returns {v!r}")

            if good:
                run_pack(good)
            for j, a in bad:
                src = place(ps, caller_src(j, a), placement)
                res = compile_src(src)
                note(res.status)
                if res.status in ("ok", "internal"):
                    viable = [s for s in ps if len(s) == len(a) and all(convertible(x, p) for x, p in zip(a, s))]
                    cls = ("ambiguity-not-detected" if viable else "resolved-without-viable-candidate|" + _sub(ps, a)) + tag
                    got = ""
                    if res.ok:
                        calls = [i for i in res.module.Functions[f"c{j}"].Instructions if isinstance(i, IR.CallInstruction)]
                        got = f" (calls {[c.Function for c in calls]})"
                    fail(cls, ps, a, src, "rejected", res.cls() + got)
    return n, nontriv, fails, counts, outcomes


def _sub(ps, args):
    nv = [s for s in ps if len(s) == len(args) and not all(convertible(a, p) for a, p in zip(args, s))]
    return "non-viable-candidate-in-set" if nv else ("no-arity-match" if not [s for s in ps if len(s) == len(args)] else "all-same-arity-viable")


def w_misc(job):
    """Unknown name, wrong arity and declaration order of caller vs callee, end to end."""
    fails, counts = [], {}
    cases = [
        ("unknown-name", "export function c() -> int { return nosuch(1); }", False),
        ("unknown-name-with-other-function", "function h(int p) -> int { return 1; }\nexport function c() -> int { return g(1); }", False),
        ("too-many-arguments", "function h(int p) -> int { return 1; }\nexport function c() -> int { return h(1, 2); }", False),
        ("too-few-arguments", "function h(int p, int q) -> int { return 1; }\nexport function c() -> int { return h(1); }", False),
        ("callee-declared-after-caller", "export function c() -> int { return h(1); }\nfunction h(int p) -> int { return 7; }", True),
        ("exported-overload-then-internal-overload", "export function h(int p) -> int { return 1; }\nfunction h(float p) -> int { return 2; }\nexport function c() -> int { return h(1) * 10 + h(1.5); }", True, 12),
        ("internal-overload-then-exported-overload", "function h(float p) -> int { return 2; }\nexport function h(int p) -> int { return 1; }\nexport function c() -> int { return h(1) * 10 + h(1.5); }", True, 12),
        ("internal-exported-internal-overloads", "function h(float p) -> int { return 2; }\nexport function h(int p) -> int { return 1; }\nfunction h(float2 p) -> int { return 3; }\nexport function c() -> int { return h(1) * 100 + h(1.5) * 10 + h(float2(1.0, 2.0)); }", True, 123),
        ("exported-overload-first-of-three", "export function h(int p) -> int { return 1; }\nfunction h(float p) -> int { return 2; }\nfunction h(float2 p) -> int { return 3; }\nexport function c() -> int { return h(1) * 100 + h(1.5) * 10 + h(float2(1.0, 2.0)); }", True, 123),
        ("unnamed-parameter-next-to-arg0", "function h(int2, float arg0) -> int { return 1; }\nexport function c() -> int { return h(int2(1, 2), 1.5); }", True, 1),
        ("unnamed-parameter-next-to-arg0-not-viable", "function h(int2, float arg0) -> int { return 1; }\nexport function c() -> int { return h(1.0, float3(1.0, 2.0, 3.0)); }", False),
        ("overloads-declared-around-caller", "function h(int p) -> int { return 1; }\nexport function c() -> int { return h(1.5); }\nfunction h(float p) -> int { return 2; }", True),
    ]
    n = 0
    for name, src, accept, *rest in cases:
        n += 1
        res = compile_src(src)
        ok = res.ok
        v = None
        if ok and accept:
            try:
                v = new_vm(link(res.module)).Invoke("c")
            except BaseException as e:
                v = f"<<{type(e).__name__}>>"
            want = rest[0] if rest else (7 if "7" in src else 2)
            if v != want:
                counts[f"C10|misc|{name}|wrong-result"] = 1
                fails.append({"key": f"C10|misc|{name}|wrong-result", "part": "misc", "source": src, "expected": want, "observed": v})
        elif ok != accept and not (not accept and res.status == "reject"):
            counts[f"C10|misc|{name}|decision"] = 1
            fails.append({"key": f"C10|misc|{name}|decision", "part": "misc", "source": src,
                          "expected": "accepted" if accept else "rejected", "observed": res.cls()})
    return n, n, fails, counts, {}



def rejob(x):
    """Re-execute one worker job (used by ./check --rejob for history-dependent failures)."""
    def tup(v):
        return tuple(tup(y) for y in v) if isinstance(v, list) else v
    return globals()[x[0]](tup(x[1]))


def _dispatch(job):
    fn, arg = job
    return fn(arg)


def run(tier, seed):
    thorough = tier == "thorough"
    jobs = []
    nsig = len(signatures(U6))
    for first in range(nsig):
        jobs.append((w_interface, (first, 3)))
    ne = len(signatures(e2e_universe(tier)))
    for first in range(ne):
        jobs.append((w_e2e, (tier, first, 3)))
    for first in range(4):
        jobs.append((w_e2e, ("vectors", first, 3)))
    jobs.append((w_misc, None))
    rot = seed % len(jobs) if seed else 0
    jobs = jobs[rot:] + jobs[:rot]
    res = pool.pmap(_dispatch, jobs)
    n = nt = 0
    failures, counts, outcomes, per = [], {}, {}, {}
    for (fn, arg), (a, b, fl, c, o) in zip(jobs, res):
        for _f in fl:
            if isinstance(_f, dict) and "key" in _f:
                _f.setdefault("job", {"fn": "nslmc.props.c10:rejob", "arg": [fn.__name__, arg]})
        n += a
        nt += b
        per[fn.__name__] = per.get(fn.__name__, 0) + a
        failures += fl
        for k, v in c.items():
            counts[k] = counts.get(k, 0) + v
        for k, v in o.items():
            outcomes[fn.__name__ + ":" + k] = outcomes.get(fn.__name__ + ":" + k, 0) + v
    seen, uniq = set(), []
    for f in failures:
        if f["key"] not in seen:
            seen.add(f["key"])
            uniq.append(f)
    sg = signatures(U6)
    k = seed % 40
    ps = [sg[k + 1], sg[(k * 5 + 9) % 43]]
    samples = [{"overloads": [list(s) for s in ps], "args": list(sg[k + 1]), "oracle": oracle(ps, sg[k + 1])},
               {"overloads": [["float", "int"], ["int", "float2"]], "args": ["int", "int"], "oracle": "h(float,int): the second is not viable"},
               {"e2e": overload_src([("int",), ("float",)]) + caller_src(0, ("uint",)), "oracle": "rejected (two candidates at cost 1)"}]
    cov = {"evaluations": n, "distinct_nontrivial": nt,
           "rule": "interface: every ordered set (every declaration order) of 1-3 distinct signatures with <=2 parameters over "
                   "{int,float,uint,int2,float2,float3} (75895 ordered sets) x all 43 argument lists through Scope.RegisterFunction/"
                   "FindFunction, looked up from a nested scope; end to end: the same over " + str(e2e_universe(tier)) +
                   " as compiled modules, accepted call sites packed (bisected on failure), predicted rejections compiled alone; the "
                   "chosen overload read from the call instruction and from the constant the VM returns. Oracle: viable = equal arity "
                   "and every argument convertible (scalar<->scalar, vector<->vector of equal size); cost = arguments whose type "
                   "differs; unique minimum or reject. Non-trivial = call sites for which a candidate of the same arity exists "
                   "(interface) / all call sites (end to end).",
           "samples": samples, "exhaustive": True,
           "bound": {"max_overloads": 3, "max_params": 2, "interface_types": U6, "e2e_types": e2e_universe(tier)},
           "per_part": per, "outcomes": outcomes, "failing_cases_per_key": counts}
    return {"level": LEVEL, "coverage": cov, "failures": uniq,
            "assumptions": ["where the chosen overload cannot execute for a reason that belongs to C05 (vector component casts) only the static observation is judged"]}


def replay(rec, verbose=True):
    if rec["part"] == "misc":
        _, _, fl, _, _ = w_misc(None)
        bad = any(f["key"] == rec["key"] for f in fl)
    elif rec["part"] == "interface":
        from nsl import ast, types as T
        ps = [tuple(s) for s in rec["overloads"]]
        root = T.Scope()
        objs = []
        for s in ps:
            f = T.Function("h", T.Integer(), [ast.Argument(nsl_type(t), f"p{k}") for k, t in enumerate(s)])
            f.Resolve(T.Scope())
            root.RegisterFunction("h", f)
            objs.append(f)
        want = oracle(ps, tuple(rec["args"]))
        try:
            with pool.quiet():
                got = T.Scope(T.Scope(root)).FindFunction("h", [nsl_type(a) for a in rec["args"]])
            gi = [k for k, o in enumerate(objs) if o is got][0]
        except BaseException:
            gi = None
        bad = gi != want
        if verbose:
            print("overloads", ps, "args", rec["args"], "expected", want, "observed", gi)
    else:
        from nsl import LinearIR as IR
        ps = [tuple(s) for s in rec["overloads"]]
        a = tuple(rec["args"])
        want = oracle(ps, a)
        res = compile_src(rec["source"])
        if verbose:
            print(rec["source"], "\nexpected", rec["expected"], "\nobserved", res.cls())
        if want is None:
            bad = res.status in ("ok", "internal")
        elif not res.ok:
            bad = True
        else:
            fn = [f for n_, f in res.module.Functions.items() if n_.startswith("c")][0]
            calls = [i for i in fn.Instructions if isinstance(i, IR.CallInstruction)]
            bad = len(calls) != 1 or calls[0].Function != mangled(ps[want])
            if not bad:
                try:
                    v = new_vm(link(res.module)).Invoke(fn.Name, **{f"x{k}": sample(t) for k, t in enumerate(a)})
                    bad = v != want + 1
                except BaseException:
                    bad = False
    return bad
