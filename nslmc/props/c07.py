"""C07 - every emitted WebAssembly binary is well-formed and valid."""
from .. import checkers
from ._famprop import make


def FAMS(tier):
    return ["W", "WO", "WS", "WM", "WU", "U", "H", "LONG"] + (["E1", "D"] if tier == "thorough" else [])


run, replay = make(
    "C07", "wasm_valid", FAMS,
    rule="Every module the compiler emits with the wasm option for the enumerated programs - the complete scalar straight-line family W "
         "(all signatures of 0-3 int/float parameters x all expression trees with <=2 operators over {+,-,*,/,==,<,>} with parameters and "
         "LEB-boundary / dyadic constants), one program per construct outside the subset (WO), the shape grid WS (parameter patterns x "
         "every interleaving of int/float IR values up to 4 (thorough 6) x void/int/float result x 1-3 exported/non-exported functions) "
         "the size sweep LONG and every ordered pair (thorough: triples up to arity 2) of functions with different signatures in one module (WM: 45 signatures = 0-3 int/float parameters x int/float/void result) - is decoded and validated by an independent WebAssembly 1.0 decoder/validator (binary format, section "
         "order and sizes, index ranges, export targets, stack type-checking of every body); wasmtime's validator is a cross-check.",
    nontrivial_note="distinct_nontrivial = modules actually emitted (refusals are trivial for this property).",
    assumptions=["nslmc/wasmref.py implements the 1.0 binary format and validation rules", "wasmtime accepts a superset of 1.0; it may only reject what wasmref rejects"],
    replayer=checkers.replay_wasm_valid,
)


# ------------------------------------------------------------------ neighbour independence (nslmc/wpairs.py)
from .. import wpairs

_family_run, _family_replay = run, replay


def run(tier, seed):
    out = _family_run(tier, seed)
    total, n, fails, counts = wpairs.run("C07", tier)
    seen = {f["key"] for f in out["failures"]}
    out["failures"] += [f for f in fails if f["key"] not in seen]
    out["coverage"]["failing_cases_per_key"].update(counts)
    out["coverage"]["evaluations"] += n
    out["coverage"]["distinct_nontrivial"] += n
    out["coverage"]["per_family"][f"pairs(every ordered pair of the {total} WO programs that translate alone, in one module)"] = n
    return out


def replay(rec, verbose=True):
    if "|pairs|" in rec["key"]:
        return wpairs.replay(rec, verbose)
    return _family_replay(rec, verbose)
