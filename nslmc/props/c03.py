"""C03 - calls pass arguments by value into isolated frames and reach the chosen overload."""
from ._famprop import make

run, replay = make(
    "C03", "ref_both", ["C"],
    rule="Complete product of call shape {single, two calls in one expression, call as argument, caller variable as operand "
         "before/after the call, call in a loop, exported callee, direct recursion, mutual recursion} x parameter type {int, float, "
         "int4, float4, float3x3} x callee action on its parameter {nothing, assign, compound, ++/--, index write (constant and "
         "dynamic), swizzle write, row/element write, local declared with a caller's variable name} (thorough: all ordered pairs of "
         "actions) x WHICH caller variable is read afterwards (every parameter and every local, selected by an input), plus overloads "
         "by {int,float}, {float2,float4}, {int2,float2} with exact-typed arguments and converting calls. Compared with the reference "
         "interpreter (by-value binding into fresh frames).",
    nontrivial_note="distinct_nontrivial = (program, selector input) pairs with a specified reference result.",
    assumptions=["float->int argument conversion only with values where floor = trunc (R1)", "aggregates are not passed (reference semantics fixed by the suite, not by the statement)"],
)
