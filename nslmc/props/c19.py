"""C19 - wasm writer: integers, names and section sizes decode to what was written.

Bounded-exhaustive enumeration (DESIGN.md C19): every integer of the stated ranges is pushed
through the real writer at the site of its kind and decoded with the textbook LEB128 decoder;
names and payload lengths are swept across the 1->2 and 2->3 byte length-prefix boundaries."""
import io
import itertools

from .. import leb, pool, wasmref
from ..nslapi import compile_src

LEVEL = "exploration"


# ------------------------------------------------------------------ value domains
def signed_domain(tier):
    lim = 1 << (22 if tier == "thorough" else 16)
    lo, hi = -(1 << 31), (1 << 31) - 1
    yield ("dense", -lim + 1, lim)            # range [a, b)
    for k in range(0, 33):
        for sgn in (1, -1):
            c = sgn * (1 << k)
            a, b = max(lo, c - 130), min(hi, c + 130)
            if a <= b:
                yield ("win", a, b + 1)


def unsigned_domain(tier):
    lim = 1 << (22 if tier == "thorough" else 16)
    yield ("dense", 0, lim)
    for k in range(0, 33):
        c = 1 << k
        a, b = max(0, c - 130), min((1 << 32) - 1, c + 130)
        if a <= b:
            yield ("win", a, b + 1)


def _chunks(dom, nshards):
    """Cut the ranges of a domain into (a, b) pieces, deterministic."""
    out = []
    for kind, a, b in dom:
        if kind == "win" or b - a < 4096:
            out.append((a, b))
        else:
            step = max(4096, (b - a) // nshards + 1)
            x = a
            while x < b:
                out.append((x, min(b, x + step)))
                x += step
    return out


def _sclass(v, enc):
    last = enc[-1] if enc else 0
    if v >= 0:
        return "nonneg,final-group-bit6-set" if last & 0x40 else "nonneg"
    return "neg,final-group-bit6-clear" if not (last & 0x40) else "neg"


# ------------------------------------------------------------------ workers
def w_signed(rng):
    from nsl import WebAssembly as W

    a, b = rng
    op = W.opcodes["i32.const"]
    fails = []
    n = 0
    lens = set()
    for v in range(a, b):
        buf = io.BytesIO()
        try:
            W.Instruction(op, (v,)).WriteTo(buf)
            data = buf.getvalue()
            ok = data[0] == op
            enc = data[1:]
            got, pos = leb.decode_signed(enc, 0, 32)
            ok = ok and got == v and pos == len(enc) and len(enc) <= 5
            detail = f"wrote {enc.hex()} which decodes (signed) to {got} using {pos} of {len(enc)} bytes"
            cls = _sclass(v, enc)
        except Exception as e:  # writer or decoder refused
            ok = False
            enc = b""
            detail = f"{type(e).__name__}: {e}"
            cls = ("neg" if v < 0 else "nonneg") + "," + type(e).__name__
        n += 1
        lens.add(len(enc))
        if not ok and len(fails) < 3:
            fails.append({"key": f"C19|sint|i32.const immediate|{cls}", "part": "sint", "value": v,
                          "expected": f"signed LEB128 of {v} = {leb.encode_signed(v).hex()}", "observed": detail})
        elif not ok:
            fails.append({"key": f"C19|sint|i32.const immediate|{cls}", "part": "sint", "value": v})
    # collapse: keep at most 3 full records per key, count the rest
    return n, _collapse(fails), sorted(lens)


def _collapse(fails):
    seen = {}
    out = []
    for f in fails:
        c = seen.get(f["key"], 0)
        seen[f["key"]] = c + 1
        if c < 2 and "observed" in f:
            out.append(f)
    for k, c in seen.items():
        out.append({"key": k, "count_only": c})
    return out


SITES = ("WriteInteger", "local.get index", "Export index", "Local count", "FunctionSection index", "WriteString length")


def w_unsigned(rng):
    from nsl import WebAssembly as W

    a, b = rng
    fails = []
    n = 0
    for v in range(a, b):
        for site in ("WriteInteger", "local.get index", "Export index", "Local count"):
            buf = io.BytesIO()
            try:
                if site == "WriteInteger":
                    W.WriteInteger(buf, v)
                    enc = buf.getvalue()
                elif site == "local.get index":
                    W.Instruction(W.opcodes["local.get"], (v,)).WriteTo(buf)
                    enc = buf.getvalue()[1:]
                elif site == "Export index":
                    W.Export(v, "f").WriteTo(buf)
                    enc = buf.getvalue()[3:]  # 01 'f' 00 <index>
                else:
                    if v == 0:
                        n += 1
                        continue
                    W.Local(W.ValueType.i32, v).WriteTo(buf)
                    enc = buf.getvalue()[:-1]
                got, pos = leb.decode_unsigned(enc, 0, 32)
                ok = got == v and pos == len(enc) and len(enc) <= 5
                detail = f"wrote {enc.hex()} which decodes (unsigned) to {got} using {pos} of {len(enc)} bytes"
                cls = "mismatch"
            except Exception as e:
                ok = False
                detail = f"{type(e).__name__}: {e}"
                cls = type(e).__name__
            n += 1
            if not ok:
                fails.append({"key": f"C19|uint|{site}|{cls}", "part": "uint", "site": site, "value": v,
                              "expected": f"unsigned LEB128 of {v} = {leb.encode_unsigned(v).hex()}", "observed": detail})
    return n, _collapse(fails), []


def _name_alphabet():
    return ["a", "Z", "_", "é", "€", "\U0001F600"]   # 1,1,1,2,3,4 byte code points


def w_names(job):
    from nsl import WebAssembly as W

    kind, lo, hi = job
    fails = []
    n = 0
    if kind == "ident":
        names = ("f" + "x" * (k - 1) for k in range(lo, hi))
    else:
        alpha = _name_alphabet()
        names = ("".join(t) for L in range(lo, hi) for t in itertools.product(alpha, repeat=L))
    for nm in names:
        for site in ("WriteString", "Export"):
            buf = io.BytesIO()
            try:
                if site == "WriteString":
                    W.WriteString(buf, nm)
                    data = buf.getvalue()
                    tail = b""
                else:
                    W.Export(3, nm).WriteTo(buf)
                    data = buf.getvalue()
                    tail = b"\x00\x03"
                ln, pos = leb.decode_unsigned(data, 0, 32)
                payload = data[pos:pos + ln]
                ok = payload.decode("utf-8") == nm and data[pos + ln:] == tail and ln == len(nm.encode("utf-8"))
                detail = f"length prefix {ln}, {len(data) - pos} bytes follow"
                cls = "mismatch"
            except Exception as e:
                ok = False
                detail = f"{type(e).__name__}: {e}"
                cls = type(e).__name__
            n += 1
            if not ok:
                fails.append({"key": f"C19|name|{site}|{cls}", "part": "name", "site": site, "name": nm,
                              "expected": "uleb128(len(utf8)) + utf8 bytes", "observed": detail})
    return n, _collapse(fails), []


# -- framing ------------------------------------------------------------------
def _check_frames(data, want_bodies=None, want_exports=None):
    """Sizes only: sections tile the file; bodies tile the code section and each body's
    instruction stream ends exactly at its declared size; export entries tile their section."""
    fr = wasmref.frames(data)
    info = {"sections": [f[0] for f in fr]}
    for sid, off, size in fr:
        r = wasmref.R(data, off, off + size)
        if sid == 10:
            cnt = r.u32()
            bodies = 0
            for _ in range(cnt):
                bs = r.u32()
                end = r.p + bs
                if end > off + size:
                    raise wasmref.Malformed(f"body size {bs} runs past the code section")
                br = wasmref.R(data, r.p, end)
                for _ in range(br.u32()):
                    br.u32()
                    br.byte()
                wasmref.decode_expr(br)
                if not br.eof():
                    raise wasmref.Malformed(f"body size field {bs} but instruction stream ends {end - br.p} bytes earlier")
                r.p = end
                bodies += 1
            if not r.eof():
                raise wasmref.Malformed("code section size field does not match its bodies")
            info["bodies"] = bodies
        elif sid == 7:
            cnt = r.u32()
            for _ in range(cnt):
                r.name()
                r.byte()
                r.u32()
            if not r.eof():
                raise wasmref.Malformed("export section size field does not match its entries")
            info["exports"] = cnt
        elif sid in (1, 3, 4):
            cnt = r.u32()
            if sid == 3:
                for _ in range(cnt):
                    r.u32()
                if not r.eof():
                    raise wasmref.Malformed("function section size field does not match its entries")
    if want_bodies is not None and info.get("bodies", 0) != want_bodies:
        raise wasmref.Malformed(f"expected {want_bodies} bodies, found {info.get('bodies', 0)}")
    if want_exports is not None and info.get("exports", 0) != want_exports:
        raise wasmref.Malformed(f"expected {want_exports} exports, found {info.get('exports', 0)}")
    return info


def w_frames_api(job):
    """API-level sweep: a body of n instructions, m bodies, export names of length L."""
    from nsl import WebAssembly as W

    kind, lo, hi = job
    fails = []
    n = 0
    sizes = set()
    for k in range(lo, hi):
        m = W.Module()
        try:
            if kind == "body":
                t = m.AddFunctionType(W.FunctionType([], []))
                m.AddFunction(t)
                c = W.Code()
                c.AddLocal(W.Local(W.ValueType.i32, 1))
                for _ in range(k):
                    c.AddInstruction(W.Instruction(W.opcodes["local.get"], (0,)))
                    c.AddInstruction(W.Instruction(W.opcodes["local.set"], (0,)))
                m.AddCode(c)
                m.AddExport(W.Export(0, "f"))
                wb, we = 1, 1
            elif kind == "funcs":
                t = m.AddFunctionType(W.FunctionType([], []))
                for i in range(k):
                    m.AddFunction(t)
                    c = W.Code()
                    c.AddInstruction(W.Instruction(W.opcodes["unreachable"]))
                    m.AddCode(c)
                    m.AddExport(W.Export(i, f"f{i}"))
                wb, we = k, k
            else:
                t = m.AddFunctionType(W.FunctionType([], []))
                m.AddFunction(t)
                c = W.Code()
                m.AddCode(c)
                m.AddExport(W.Export(0, "n" * k))
                wb, we = 1, 1
            buf = io.BytesIO()
            m.WriteTo(buf)
            data = buf.getvalue()
            sizes.add(len(data))
            _check_frames(data, wb, we)
            ok = True
        except Exception as e:
            ok = False
            fails.append({"key": f"C19|frame|api-{kind}|{type(e).__name__}", "part": "frame", "kind": kind, "n": k,
                          "expected": "every size field equals the payload bytes that follow",
                          "observed": f"{type(e).__name__}: {e}"})
        n += 1
    return n, _collapse(fails), sorted(sizes)[:3]


E2E_CONSTS = [0, 1, -1, 63, 64, -64, -65, 127, 128, 8191, 8192, -8192, -8193, 1 << 20, (1 << 31) - 1, -(1 << 31) + 1,
              1048575, 1048576, -1048576, -1048577, 134217727, 134217728, -134217728, -134217729]


def w_e2e(job):
    """End to end through the compiler: constants read back from the emitted body and
    body/section framing for n statements."""
    kind, lo, hi = job
    fails = []
    n = 0
    for k in range(lo, hi):
        if kind == "const":
            v = E2E_CONSTS[k]
            lit = str(v)
            src = f"export function f(int a) -> int {{ return a + {lit}; }}"
            want_consts = [v]
        else:
            body = " ".join(f"a = a + {i % 7 + 1};" for i in range(k))
            src = f"export function f(int a) -> int {{ {body} return a; }}"
            want_consts = None
        res = compile_src(src, {"wasm": True})
        n += 1
        if res.status != "ok" or res.wasm_bytes is None:
            # refusing to emit is not a C19 matter (C06/C07); nothing was written
            continue
        data = res.wasm_bytes
        try:
            info = _check_frames(data, 1, None)
            if want_consts is not None:
                got = _body_consts(data)
                if got != want_consts:
                    raise wasmref.Malformed(f"i32.const immediates decode to {got}, source has {want_consts}")
        except Exception as e:
            fails.append({"key": f"C19|e2e|{kind}|{type(e).__name__}", "part": "e2e", "source": src, "options": {"wasm": True},
                          "expected": "constants and size fields decode to what was written",
                          "observed": f"{type(e).__name__}: {e}"})
    return n, _collapse(fails), []


def _body_consts(data):
    out = []
    for sid, off, size in wasmref.frames(data):
        if sid != 10:
            continue
        r = wasmref.R(data, off, off + size)
        for _ in range(r.u32()):
            bs = r.u32()
            br = wasmref.R(data, r.p, r.p + bs)
            for _ in range(br.u32()):
                br.u32()
                br.byte()
            body, _ = wasmref.decode_expr(br)
            out += [i[1] for i in body if i[0] == 0x41]
            r.p += bs
    return out


# ------------------------------------------------------------------ driver
def run(tier, seed):
    thorough = tier == "thorough"
    jobs = []
    ns = pool.shards()
    for rng in _chunks(signed_domain(tier), ns):
        jobs.append((w_signed, rng))
    for rng in _chunks(unsigned_domain(tier), ns):
        jobs.append((w_unsigned, rng))
    top = 300 if not thorough else 700
    for lo in range(1, top, 50):
        jobs.append((w_names, ("ident", lo, min(top, lo + 50))))
    jobs.append((w_names, ("utf8", 1, 4 if not thorough else 5)))
    nbody = 120 if not thorough else 4300      # 4 bytes/pair: crosses 127/128 (and 16383/16384 in thorough)
    for lo in range(0, nbody, 100):
        jobs.append((w_frames_api, ("body", lo, min(nbody, lo + 100))))
    nf = 70 if not thorough else 2200          # 3 bytes/body, ~5 bytes/export
    for lo in range(1, nf, 100):
        jobs.append((w_frames_api, ("funcs", lo, min(nf, lo + 100))))
    for lo in range(1, 300 if not thorough else 17000, 500):
        jobs.append((w_frames_api, ("name", lo, min(300 if not thorough else 17000, lo + 500))))
    jobs.append((w_e2e, ("const", 0, len(E2E_CONSTS))))
    ne = 40 if not thorough else 400
    for lo in range(1, ne, 20):
        jobs.append((w_e2e, ("stmts", lo, min(ne, lo + 20))))
    order = list(range(len(jobs)))
    if seed:
        order = order[seed % len(order):] + order[: seed % len(order)]
    results = pool.pmap(_dispatch, [jobs[i] for i in order])
    evals = 0
    failures = []
    counts = {}
    lens = set()
    per_part = {}
    for (fn, _), (n, fl, extra) in zip([jobs[i] for i in order], results):
        evals += n
        per_part[fn.__name__] = per_part.get(fn.__name__, 0) + n
        if fn is w_signed:
            lens.update(extra)
        for f in fl:
            if "count_only" in f:
                counts[f["key"]] = counts.get(f["key"], 0) + f["count_only"]
            else:
                failures.append(f)
    # make sure every counted key has at least one full record
    have = {f["key"] for f in failures}
    for k in counts:
        if k not in have:
            failures.append({"key": k})
    samples = [
        {"site": "i32.const", "value": v, "reference_encoding": leb.encode_signed(v).hex()}
        for v in (64 + seed % 5, -65 - seed % 5, 8192, -(1 << 31), (1 << 31) - 1)
    ] + [{"site": "WriteInteger", "value": 16384, "reference_encoding": leb.encode_unsigned(16384).hex()},
         {"site": "Export name", "name": "f" + "x" * 127}, {"site": "api body sweep", "pairs_of_instructions": 31},
         {"site": "e2e", "source": "export function f(int a) -> int { return a + 64; }"}]
    cov = {
        "evaluations": evals,
        "distinct_nontrivial": evals - per_part.get("w_e2e", 0) // 2,
        "rule": "every integer of the dense range and of the +-130 windows round +-2^k (k=0..32) through the real writer "
                "at each site of its kind (i32.const signed; WriteInteger/local index/export index/local count unsigned), "
                "decoded by an independent textbook LEB128 decoder; every identifier length; every UTF-8 string up to the "
                "length bound over code points of 1-4 bytes; payload-size sweeps over bodies, function counts and export "
                "names. All cases are distinct values/lengths; non-trivial = the value actually went through writer and "
                "decoder (all of them; e2e refusals are counted as trivial).",
        "samples": samples,
        "exhaustive": True,
        "bound": {"dense_abs_lt": 1 << (22 if thorough else 16), "window": 130, "k": "0..32",
                  "ident_len_max": top - 1, "utf8_len_max": 3 if not thorough else 4,
                  "body_instr_pairs_max": nbody - 1, "functions_max": nf - 1},
        "per_part": per_part,
        "signed_encoding_lengths_seen": sorted(lens),
        "failing_cases_per_key": counts,
    }
    return {"level": LEVEL, "coverage": cov, "failures": failures,
            "assumptions": ["the textbook LEB128 decoder in nslmc/leb.py is the format's decoder",
                            "values outside the dense range and the windows round powers of two are not enumerated"]}


def _dispatch(job):
    fn, arg = job
    return fn(arg)


def replay(rec, verbose=True):
    part = rec.get("part")
    if part == "sint":
        _, fl, _ = w_signed((rec["value"], rec["value"] + 1))
    elif part == "uint":
        _, fl, _ = w_unsigned((rec["value"], rec["value"] + 1))
    elif part == "name":
        from nsl import WebAssembly as W
        buf = io.BytesIO()
        try:
            W.WriteString(buf, rec["name"])
            data = buf.getvalue()
            ln, pos = leb.decode_unsigned(data, 0, 32)
            fl = [] if data[pos:pos + ln].decode("utf-8") == rec["name"] and pos + ln == len(data) else [1]
        except Exception:
            fl = [1]
    elif part == "frame":
        _, fl, _ = w_frames_api((rec["kind"], rec["n"], rec["n"] + 1))
    elif part == "e2e":
        res = compile_src(rec["source"], rec.get("options", {}))
        fl = []
        if res.status == "ok" and res.wasm_bytes is not None:
            try:
                _check_frames(res.wasm_bytes, 1, None)
                import re
                m = re.search(r"return a \+ (-?\d+);", rec["source"])
                if m and _body_consts(res.wasm_bytes) != [int(m.group(1))]:
                    fl = [1]
            except Exception:
                fl = [1]
    else:
        fl = [1]
    if verbose:
        print("replay", {k: rec[k] for k in rec if k not in ("key",)})
        if part == "sint":
            print("def test_replay():\n    import io\n    from nsl import WebAssembly as W\n    b = io.BytesIO()\n"
                  f"    W.Instruction(W.opcodes['i32.const'], ({rec['value']},)).WriteTo(b)\n"
                  f"    assert b.getvalue()[1:] == bytes.fromhex('{leb.encode_signed(rec['value']).hex()}')")
    return bool(fl)
