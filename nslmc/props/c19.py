"""C19 - wasm writer: integers, names and section sizes decode to what was written.

Bounded-exhaustive enumeration (DESIGN.md C19): every integer of the stated ranges is pushed
through the real writer at the site of its kind and decoded with the textbook LEB128 decoder;
names and payload lengths are swept across the 1->2 and 2->3 byte length-prefix boundaries."""
import io
import itertools

from .. import leb, pool, wasmref
from ..nslapi import compile_src

LEVEL = "exploration"


# ------------------------------------------------------------------ value domains
def signed_domain(tier):
    lim = 1 << (22 if tier == "thorough" else 16)
    lo, hi = -(1 << 31), (1 << 31) - 1
    yield ("dense", -lim + 1, lim)            # range [a, b)
    for k in range(0, 33):
        for sgn in (1, -1):
            c = sgn * (1 << k)
            a, b = max(lo, c - 130), min(hi, c + 130)
            if a <= b:
                yield ("win", a, b + 1)


def unsigned_domain(tier):
    lim = 1 << (22 if tier == "thorough" else 16)
    yield ("dense", 0, lim)
    for k in range(0, 33):
        c = 1 << k
        a, b = max(0, c - 130), min((1 << 32) - 1, c + 130)
        if a <= b:
            yield ("win", a, b + 1)


def _chunks(dom, nshards):
    """Cut the ranges of a domain into (a, b) pieces, deterministic."""
    out = []
    for kind, a, b in dom:
        if kind == "win" or b - a < 4096:
            out.append((a, b))
        else:
            step = max(4096, (b - a) // nshards + 1)
            x = a
            while x < b:
                out.append((x, min(b, x + step)))
                x += step
    return out


def _sclass(v, enc):
    last = enc[-1] if enc else 0
    if v >= 0:
        return "nonneg,final-group-bit6-set" if last & 0x40 else "nonneg"
    return "neg,final-group-bit6-clear" if not (last & 0x40) else "neg"


# ------------------------------------------------------------------ workers
def _check_signed(W, v):
    op = W.opcodes["i32.const"]
    buf = io.BytesIO()
    try:
        W.Instruction(op, (v,)).WriteTo(buf)
        data = buf.getvalue()
        enc = data[1:]
        got, pos = leb.decode_signed(enc, 0, 32)
        ok = data[0] == op and got == v and pos == len(enc) and len(enc) <= 5
        return ok, _sclass(v, enc), f"wrote {enc.hex()} which decodes (signed) to {got} using {pos} of {len(enc)} bytes", len(enc)
    except Exception as e:  # writer or decoder refused
        return False, ("neg" if v < 0 else "nonneg") + "," + type(e).__name__, f"{type(e).__name__}: {e}", 0


def _check_unsigned(W, v, site):
    buf = io.BytesIO()
    try:
        if site == "WriteInteger":
            W.WriteInteger(buf, v)
            enc = buf.getvalue()
        elif site == "local.get index":
            W.Instruction(W.opcodes["local.get"], (v,)).WriteTo(buf)
            enc = buf.getvalue()[1:]
        elif site == "Export index":
            W.Export(v, "f").WriteTo(buf)
            enc = buf.getvalue()[3:]  # 01 'f' 00 <index>
        else:
            W.Local(W.ValueType.i32, v).WriteTo(buf)
            enc = buf.getvalue()[:-1]
        got, pos = leb.decode_unsigned(enc, 0, 32)
        ok = got == v and pos == len(enc) and len(enc) <= 5
        return ok, "mismatch", f"wrote {enc.hex()} which decodes (unsigned) to {got} using {pos} of {len(enc)} bytes"
    except Exception as e:
        return False, type(e).__name__, f"{type(e).__name__}: {e}"


USITES = ("WriteInteger", "local.get index", "Export index", "Local count")


def w_ints(job):
    """Every value of the range through the signed site and the unsigned sites, in the given order.  Both orders are
    run (in different, hermetic jobs), so an encoder whose result depends on what was encoded before is seen."""
    from nsl import WebAssembly as W

    order, a, b = job
    fails = []
    n = 0
    lens = set()

    def signed(v):
        nonlocal n
        if not (-(1 << 31) <= v < (1 << 31)):
            return
        ok, cls, detail, ln = _check_signed(W, v)
        n += 1
        lens.add(ln)
        if not ok:
            fails.append({"key": f"C19|sint|i32.const immediate|{cls}", "part": "int", "order": order, "value": v,
                          "expected": f"signed LEB128 of {v} = {leb.encode_signed(v).hex()}", "observed": detail})

    def unsigned(v):
        nonlocal n
        if not (0 <= v < (1 << 32)):
            return
        for site in USITES:
            if site == "Local count" and v == 0:
                continue
            ok, cls, detail = _check_unsigned(W, v, site)
            n += 1
            if not ok:
                fails.append({"key": f"C19|uint|{site}|{cls}", "part": "int", "order": order, "site": site, "value": v,
                              "expected": f"unsigned LEB128 of {v} = {leb.encode_unsigned(v).hex()}", "observed": detail})

    for v in range(a, b):
        if order == "unsigned-first":
            unsigned(v)
            signed(v)
        else:
            signed(v)
            unsigned(v)
    return n, _collapse(fails), sorted(lens)


def _collapse(fails):
    seen = {}
    out = []
    for f in fails:
        c = seen.get(f["key"], 0)
        seen[f["key"]] = c + 1
        if c < 2 and "observed" in f:
            out.append(f)
    for k, c in seen.items():
        out.append({"key": k, "count_only": c})
    return out


def w_multi(job):
    order, rngs = job
    n, fails, lens = 0, [], set()
    for a, b in rngs:
        k, fl, ln = w_ints((order, a, b))
        n += k
        fails += fl
        lens.update(ln)
    # merge count_only entries
    counts, full = {}, []
    for f in fails:
        if "count_only" in f:
            counts[f["key"]] = counts.get(f["key"], 0) + f["count_only"]
        else:
            full.append(f)
    return n, full + [{"key": k, "count_only": c} for k, c in counts.items()], sorted(lens)


def _name_alphabet():
    return ["a", "Z", "_", "é", "€", "\U0001F600"]   # 1,1,1,2,3,4 byte code points


def w_names(job):
    from nsl import WebAssembly as W

    kind, lo, hi = job
    fails = []
    n = 0
    if kind == "ident":
        names = ("f" + "x" * (k - 1) for k in range(lo, hi))
    else:
        alpha = _name_alphabet()
        names = ("".join(t) for L in range(lo, hi) for t in itertools.product(alpha, repeat=L))
    for nm in names:
        for site in ("WriteString", "Export"):
            buf = io.BytesIO()
            try:
                if site == "WriteString":
                    W.WriteString(buf, nm)
                    data = buf.getvalue()
                    tail = b""
                else:
                    W.Export(3, nm).WriteTo(buf)
                    data = buf.getvalue()
                    tail = b"\x00\x03"
                ln, pos = leb.decode_unsigned(data, 0, 32)
                payload = data[pos:pos + ln]
                ok = payload.decode("utf-8") == nm and data[pos + ln:] == tail and ln == len(nm.encode("utf-8"))
                detail = f"length prefix {ln}, {len(data) - pos} bytes follow"
                cls = "mismatch"
            except Exception as e:
                ok = False
                detail = f"{type(e).__name__}: {e}"
                cls = type(e).__name__
            n += 1
            if not ok:
                fails.append({"key": f"C19|name|{site}|{cls}", "part": "name", "site": site, "name": nm,
                              "expected": "uleb128(len(utf8)) + utf8 bytes", "observed": detail})
    return n, _collapse(fails), []


# -- framing ------------------------------------------------------------------
def _check_frames(data, want_bodies=None, want_exports=None):
    """Sizes only: sections tile the file; bodies tile the code section and each body's
    instruction stream ends exactly at its declared size; export entries tile their section."""
    fr = wasmref.frames(data)
    info = {"sections": [f[0] for f in fr]}
    for sid, off, size in fr:
        r = wasmref.R(data, off, off + size)
        if sid == 10:
            cnt = r.u32()
            bodies = 0
            for _ in range(cnt):
                bs = r.u32()
                end = r.p + bs
                if end > off + size:
                    raise wasmref.Malformed(f"body size {bs} runs past the code section")
                br = wasmref.R(data, r.p, end)
                for _ in range(br.u32()):
                    br.u32()
                    br.byte()
                wasmref.decode_expr(br)
                if not br.eof():
                    raise wasmref.Malformed(f"body size field {bs} but instruction stream ends {end - br.p} bytes earlier")
                r.p = end
                bodies += 1
            if not r.eof():
                raise wasmref.Malformed("code section size field does not match its bodies")
            info["bodies"] = bodies
        elif sid == 7:
            cnt = r.u32()
            for _ in range(cnt):
                r.name()
                r.byte()
                r.u32()
            if not r.eof():
                raise wasmref.Malformed("export section size field does not match its entries")
            info["exports"] = cnt
        elif sid in (1, 3, 4):
            cnt = r.u32()
            if sid == 3:
                for _ in range(cnt):
                    r.u32()
                if not r.eof():
                    raise wasmref.Malformed("function section size field does not match its entries")
    if want_bodies is not None and info.get("bodies", 0) != want_bodies:
        raise wasmref.Malformed(f"expected {want_bodies} bodies, found {info.get('bodies', 0)}")
    if want_exports is not None and info.get("exports", 0) != want_exports:
        raise wasmref.Malformed(f"expected {want_exports} exports, found {info.get('exports', 0)}")
    return info


def w_frames_api(job):
    """API-level sweep: a body of n instructions, m bodies, export names of length L."""
    from nsl import WebAssembly as W

    kind, lo, hi = job
    fails = []
    n = 0
    sizes = set()
    for k in range(lo, hi):
        m = W.Module()
        try:
            if kind == "body":
                t = m.AddFunctionType(W.FunctionType([], []))
                m.AddFunction(t)
                c = W.Code()
                c.AddLocal(W.Local(W.ValueType.i32, 1))
                for _ in range(k):
                    c.AddInstruction(W.Instruction(W.opcodes["local.get"], (0,)))
                    c.AddInstruction(W.Instruction(W.opcodes["local.set"], (0,)))
                m.AddCode(c)
                m.AddExport(W.Export(0, "f"))
                wb, we = 1, 1
            elif kind == "sizes":
                # k indexes a sequence of body lengths (every sequence of up to 4 lengths from the alphabet): bodies of different
                # sizes in one module, growing, shrinking, equal
                alphabet = (0, 1, 5, 70)
                seq, x = [], k
                L = 1
                while x >= len(alphabet) ** L:
                    x -= len(alphabet) ** L
                    L += 1
                for _ in range(L):
                    seq.append(alphabet[x % len(alphabet)])
                    x //= len(alphabet)
                t = m.AddFunctionType(W.FunctionType([], []))
                for i, ln in enumerate(seq):
                    m.AddFunction(t)
                    c = W.Code()
                    c.AddLocal(W.Local(W.ValueType.i32, 1))
                    for _ in range(ln):
                        c.AddInstruction(W.Instruction(W.opcodes["local.get"], (0,)))
                        c.AddInstruction(W.Instruction(W.opcodes["local.set"], (0,)))
                    m.AddCode(c)
                    m.AddExport(W.Export(i, f"f{i}"))
                wb, we = len(seq), len(seq)
            elif kind == "funcs":
                t = m.AddFunctionType(W.FunctionType([], []))
                for i in range(k):
                    m.AddFunction(t)
                    c = W.Code()
                    c.AddInstruction(W.Instruction(W.opcodes["unreachable"]))
                    m.AddCode(c)
                    m.AddExport(W.Export(i, f"f{i}"))
                wb, we = k, k
            else:
                t = m.AddFunctionType(W.FunctionType([], []))
                m.AddFunction(t)
                c = W.Code()
                m.AddCode(c)
                m.AddExport(W.Export(0, "n" * k))
                wb, we = 1, 1
            buf = io.BytesIO()
            m.WriteTo(buf)
            data = buf.getvalue()
            sizes.add(len(data))
            _check_frames(data, wb, we)
            ok = True
        except Exception as e:
            ok = False
            fails.append({"key": f"C19|frame|api-{kind}|{type(e).__name__}", "part": "frame", "kind": kind, "n": k,
                          "expected": "every size field equals the payload bytes that follow",
                          "observed": f"{type(e).__name__}: {e}"})
        n += 1
    return n, _collapse(fails), sorted(sizes)[:3]


E2E_CONSTS = [0, 1, -1, 63, 64, -64, -65, 127, 128, 8191, 8192, -8192, -8193, 1 << 20, (1 << 31) - 1, -(1 << 31) + 1,
              1048575, 1048576, -1048576, -1048577, 134217727, 134217728, -134217728, -134217729, -(1 << 31)]
# unsigned constants (they reach the emitter when the optimiser folds uint(<literal>)): written as the two's complement immediate
E2E_UCONSTS = [0, 1, 127, 128, (1 << 31) - 1, 1 << 31, (1 << 31) + 1, 3000000000, (1 << 32) - 2, (1 << 32) - 1]


def w_e2e(job):
    """End to end through the compiler: constants read back from the emitted body and
    body/section framing for n statements."""
    kind, lo, hi = job
    fails = []
    n = 0
    for k in range(lo, hi):
        opts = {"wasm": True}
        if kind == "const":
            v = E2E_CONSTS[k]
            lit = str(v)
            src = f"export function f(int a) -> int {{ return a + {lit}; }}"
            want_consts = [v]
        elif kind == "uconst":
            v = E2E_UCONSTS[k]
            src = f"export function f(uint u) -> uint {{ return u + uint({v}); }}"
            want_consts = [v - (1 << 32) if v >= (1 << 31) else v]
            opts = {"wasm": True, "optimize": True}
        else:
            body = " ".join(f"a = a + {i % 7 + 1};" for i in range(k))
            src = f"export function f(int a) -> int {{ {body} return a; }}"
            want_consts = None
        res = compile_src(src, opts)
        n += 1
        if res.status != "ok" or res.wasm_bytes is None:
            # refusing to emit is not a C19 matter (C06/C07); nothing was written
            continue
        data = res.wasm_bytes
        try:
            info = _check_frames(data, 1, None)
            if want_consts is not None:
                got = _body_consts(data)
                if got != want_consts:
                    raise wasmref.Malformed(f"i32.const immediates decode to {got}, source has {want_consts}")
        except Exception as e:
            fails.append({"key": f"C19|e2e|{kind}|{type(e).__name__}", "part": "e2e", "source": src, "options": opts,
                          "expected": "constants and size fields decode to what was written",
                          "observed": f"{type(e).__name__}: {e}"})
    return n, _collapse(fails), []


def _body_consts(data):
    out = []
    for sid, off, size in wasmref.frames(data):
        if sid != 10:
            continue
        r = wasmref.R(data, off, off + size)
        for _ in range(r.u32()):
            bs = r.u32()
            br = wasmref.R(data, r.p, r.p + bs)
            for _ in range(br.u32()):
                br.u32()
                br.byte()
            body, _ = wasmref.decode_expr(br)
            out += [i[1] for i in body if i[0] == 0x41]
            r.p += bs
    return out


# ------------------------------------------------------------------ driver
def run(tier, seed):
    thorough = tier == "thorough"
    jobs = []
    ns = pool.shards()
    ranges = sorted(set(_chunks(signed_domain(tier), 8) + _chunks(unsigned_domain(tier), 8)))
    # coarse hermetic jobs: the dense pieces alone, all windows together, each in both orders
    dense = [r for r in ranges if r[1] - r[0] >= 4096]
    wins = [r for r in ranges if r[1] - r[0] < 4096]
    for order_ in ("unsigned-first", "signed-first"):
        for a_, b_ in dense:
            jobs.append((w_ints, (order_, a_, b_)))
        for i in range(0, len(wins), 24):
            jobs.append((w_multi, (order_, tuple(wins[i:i + 24]))))
    top = 300 if not thorough else 700
    for lo in range(1, top, 150):
        jobs.append((w_names, ("ident", lo, min(top, lo + 150))))
    jobs.append((w_names, ("utf8", 1, 4 if not thorough else 5)))
    nbody = 120 if not thorough else 4300      # 4 bytes/pair: crosses 127/128 (and 16383/16384 in thorough)
    for lo in range(0, nbody, 600):
        jobs.append((w_frames_api, ("body", lo, min(nbody, lo + 600))))
    nf = 140 if not thorough else 2200         # crosses the 127/128 entry count (quick) and 16383/16384 bytes (thorough)
    for lo in range(1, nf, 400):
        jobs.append((w_frames_api, ("funcs", lo, min(nf, lo + 400))))
    jobs.append((w_frames_api, ("sizes", 0, 4 + 16 + 64 + 256)))
    for lo in range(1, 300 if not thorough else 17000, 3000):
        jobs.append((w_frames_api, ("name", lo, min(300 if not thorough else 17000, lo + 3000))))
    jobs.append((w_e2e, ("const", 0, len(E2E_CONSTS))))
    jobs.append((w_e2e, ("uconst", 0, len(E2E_UCONSTS))))
    ne = 40 if not thorough else 400
    for lo in range(1, ne, 100):
        jobs.append((w_e2e, ("stmts", lo, min(ne, lo + 100))))
    order = list(range(len(jobs)))
    if seed:
        order = order[seed % len(order):] + order[: seed % len(order)]
    results = pool.pmap(_dispatch, [jobs[i] for i in order])
    evals = 0
    failures = []
    counts = {}
    lens = set()
    per_part = {}
    for (fn, arg), (n, fl, extra) in zip([jobs[i] for i in order], results):
        for _f in fl:
            if isinstance(_f, dict) and "key" in _f:
                _f.setdefault("job", {"fn": "nslmc.props.c19:rejob", "arg": [fn.__name__, arg]})
        evals += n
        per_part[fn.__name__] = per_part.get(fn.__name__, 0) + n
        if fn in (w_ints, w_multi):
            lens.update(extra)
        for f in fl:
            if "count_only" in f:
                counts[f["key"]] = counts.get(f["key"], 0) + f["count_only"]
            else:
                failures.append(f)
    # make sure every counted key has at least one full record
    have = {f["key"] for f in failures}
    for k in counts:
        if k not in have:
            failures.append({"key": k})
    samples = [
        {"site": "i32.const", "value": v, "reference_encoding": leb.encode_signed(v).hex()}
        for v in (64 + seed % 5, -65 - seed % 5, 8192, -(1 << 31), (1 << 31) - 1)
    ] + [{"site": "WriteInteger", "value": 16384, "reference_encoding": leb.encode_unsigned(16384).hex()},
         {"site": "Export name", "name": "f" + "x" * 127}, {"site": "api body sweep", "pairs_of_instructions": 31},
         {"site": "e2e", "source": "export function f(int a) -> int { return a + 64; }"}]
    cov = {
        "evaluations": evals,
        "distinct_nontrivial": evals - per_part.get("w_e2e", 0) // 2,
        "rule": "(every value goes through the signed i32.const site and the unsigned sites in BOTH orders, in separate fresh interpreters) every integer of the dense range and of the +-130 windows round +-2^k (k=0..32) through the real writer "
                "at each site of its kind (i32.const signed; WriteInteger/local index/export index/local count unsigned), "
                "decoded by an independent textbook LEB128 decoder; every identifier length; every UTF-8 string up to the "
                "length bound over code points of 1-4 bytes; payload-size sweeps over bodies, function counts and export "
                "names. All cases are distinct values/lengths; non-trivial = the value actually went through writer and "
                "decoder (all of them; e2e refusals are counted as trivial).",
        "samples": samples,
        "exhaustive": True,
        "bound": {"dense_abs_lt": 1 << (22 if thorough else 16), "window": 130, "k": "0..32",
                  "ident_len_max": top - 1, "utf8_len_max": 3 if not thorough else 4,
                  "body_instr_pairs_max": nbody - 1, "functions_max": nf - 1},
        "per_part": per_part,
        "signed_encoding_lengths_seen": sorted(lens),
        "failing_cases_per_key": counts,
    }
    return {"level": LEVEL, "coverage": cov, "failures": failures,
            "assumptions": ["the textbook LEB128 decoder in nslmc/leb.py is the format's decoder",
                            "values outside the dense range and the windows round powers of two are not enumerated"]}



def rejob(x):
    """Re-execute one worker job (used by ./check --rejob for history-dependent failures)."""
    def tup(v):
        return tuple(tup(y) for y in v) if isinstance(v, list) else v
    return globals()[x[0]](tup(x[1]))


def _dispatch(job):
    fn, arg = job
    return fn(arg)


def replay(rec, verbose=True):
    part = rec.get("part")
    if part == "int":
        _, fl, _ = w_ints((rec["order"], rec["value"], rec["value"] + 1))
        fl = [f for f in fl if f["key"] == rec["key"]]
    elif part == "name":
        from nsl import WebAssembly as W
        buf = io.BytesIO()
        try:
            W.WriteString(buf, rec["name"])
            data = buf.getvalue()
            ln, pos = leb.decode_unsigned(data, 0, 32)
            fl = [] if data[pos:pos + ln].decode("utf-8") == rec["name"] and pos + ln == len(data) else [1]
        except Exception:
            fl = [1]
    elif part == "frame":
        _, fl, _ = w_frames_api((rec["kind"], rec["n"], rec["n"] + 1))
    elif part == "e2e":
        res = compile_src(rec["source"], rec.get("options", {}))
        fl = []
        if res.status == "ok" and res.wasm_bytes is not None:
            try:
                _check_frames(res.wasm_bytes, 1, None)
                import re
                m = re.search(r"return a \+ (-?\d+);", rec["source"])
                if m and _body_consts(res.wasm_bytes) != [int(m.group(1))]:
                    fl = [1]
            except Exception:
                fl = [1]
    else:
        fl = [1]
    if verbose:
        print("replay", {k: rec[k] for k in rec if k not in ("key",)})
        if part == "int" and "sint" in rec["key"]:
            print("def test_replay():\n    import io\n    from nsl import WebAssembly as W\n    b = io.BytesIO()\n"
                  f"    W.Instruction(W.opcodes['i32.const'], ({rec['value']},)).WriteTo(b)\n"
                  f"    assert b.getvalue()[1:] == bytes.fromhex('{leb.encode_signed(rec['value']).hex()}')")
    return bool(fl)
