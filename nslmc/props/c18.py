"""C18 - compilation is deterministic and independent of earlier compilations.

Explicit-state search over histories of compilations (nslmc/c18child.py) repeated for hash seeds that
realise every iteration order of the import-name sets, and for every parser-table cache state;
every transition's output must equal the baseline produced by a fresh process that compiled only
that probe."""
import json
import os
import shutil
import subprocess
import sys
import tempfile

from .. import pool, snapshot
from ..c18child import LIBS, OPTIONS, PROBES, SOURCES
from ..nslapi import compile_src

LEVEL = "model_checking"
VERIF = os.path.dirname(os.path.dirname(os.path.dirname(os.path.abspath(__file__))))


def _child(root, work, mode, out, base=None, seed="0", timeout=3000):
    env = dict(os.environ)
    env["PYTHONHASHSEED"] = str(seed)
    env["PYTHONPATH"] = VERIF
    env["NSLMC_KEEP_HASHSEED"] = "1"
    cmd = [sys.executable, "-m", "nslmc.c18child", root, work, mode, out] + ([base] if base else [])
    return subprocess.run(cmd, env=env, stdout=subprocess.PIPE, stderr=subprocess.PIPE, timeout=timeout)


def make_root(cache_state, top):
    """A private copy of the snapshot with the parser table cache in the requested state."""
    src = snapshot.root()
    dst = tempfile.mkdtemp(prefix="root-", dir=top)
    shutil.copytree(os.path.join(src, "nsl"), os.path.join(dst, "nsl"), ignore=shutil.ignore_patterns("__pycache__"))
    tab = os.path.join(dst, "nsl", "parsetab.py")
    if cache_state == "absent":
        for fn in ("parsetab.py", "parser.out"):
            p = os.path.join(dst, "nsl", fn)
            if os.path.exists(p):
                os.unlink(p)
    elif cache_state == "truncated":
        data = open(tab, "rb").read()
        open(tab, "wb").write(data[: len(data) // 2])
    elif cache_state == "other-start-symbol":
        code = ("import sys; sys.path.insert(0, %r); sys.meta_path[:] = [f for f in sys.meta_path if 'Editable' not in getattr(f, '__name__', type(f).__name__)];"
                "import io, contextlib\nwith contextlib.redirect_stderr(io.StringIO()):\n    from nsl import parser as P\n    P.NslParser(P.ParseEntryPoint.Expression)\n" % dst)
        subprocess.run([sys.executable, "-c", code], cwd=dst, stdout=subprocess.PIPE, stderr=subprocess.PIPE, timeout=120)
    return dst


def w_baseline(job):
    k, root, work, top = job
    out = os.path.join(top, f"base{k}.json")
    r = _child(root, work, f"baseline:{k}", out)
    try:
        return k, json.load(open(out))["output"]
    except Exception:
        return k, ["baseline-failed", r.stderr.decode()[-300:]]


def w_config(job):
    name, seed, cache, dd, nd, work, top, basefile = job
    root = make_root(cache, top)
    out = os.path.join(top, f"out-{name}.json")
    r = _child(root, work, f"search:{dd}:{nd}", out, basefile, seed)
    try:
        res = json.load(open(out))
    except Exception:
        res = {"error": r.stderr.decode()[-500:]}
    res["config"] = {"name": name, "hashseed": seed, "table_cache": cache, "dedup_depth": dd, "nodedup_history_length": nd}
    return res


def find_seeds(maxtry=400):
    """Hash seeds under which the 3- and 2-element import-name sets iterate in every possible order."""
    want3, want2 = set(), set()
    chosen = []
    code = "print(','.join({'la','lb','lc'}) + ';' + ','.join({'la','lb'}))"
    for s in range(0, maxtry):
        r = subprocess.run([sys.executable, "-c", code], env=dict(os.environ, PYTHONHASHSEED=str(s)), stdout=subprocess.PIPE, timeout=60)
        o3, o2 = r.stdout.decode().strip().split(";")
        if o3 not in want3 or o2 not in want2:
            want3.add(o3)
            want2.add(o2)
            chosen.append(s)
        if len(want3) == 6 and len(want2) == 2:
            break
    return chosen, sorted(want3), sorted(want2)


def run(tier, seed):
    thorough = tier == "thorough"
    top = tempfile.mkdtemp(prefix="nslmc-c18-")
    try:
        work = os.path.join(top, "work")
        os.makedirs(work)
        # the imported library modules, compiled once and stored like nslc.py does
        import pickle
        for name, src in LIBS.items():
            res = compile_src(src)
            if res.ok:
                pickle.dump(res.module, open(os.path.join(work, name + ".nslir"), "wb"))
        base_root = make_root("present", top)
        bl = pool.pmap(w_baseline, [(k, base_root, work, top) for k in range(len(PROBES))])
        base = {str(k): o for k, o in bl}
        basefile = os.path.join(top, "baseline.json")
        json.dump(base, open(basefile, "w"))
        seeds, o3, o2 = find_seeds()
        off = seed % max(1, len(seeds))
        seeds = seeds[off:] + seeds[:off]
        configs = []
        nprobe = len(PROBES)
        for i, s in enumerate(seeds):
            if thorough:
                configs.append((f"seed{s}", s, "present", 4, nprobe, work, top, basefile))
            elif i == 0:
                configs.append((f"seed{s}", s, "present", 1, nprobe, work, top, basefile))   # quick: depth 1 + all 24 chains
            else:
                configs.append((f"seed{s}", s, "present", 1, 3, work, top, basefile))   # every probe from the pristine state + 3 chains
        for cache in ("absent", "other-start-symbol"):
            configs.append((f"cache-{cache}", seeds[0], cache, 4 if thorough else 1, nprobe if thorough else 3, work, top, basefile))
        results = pool.pmap(w_config, configs, jobs=4 if not thorough else 8)
    finally:
        shutil.rmtree(top, ignore_errors=True)
    states = transitions = 0
    failures, counts = [], {}
    per = []
    closed = True
    orders3, orders2 = set(), set()
    samples = []
    for r in results:
        cfg = r.get("config", {})
        if "error" in r:
            key = f"C18|config|search-process-failed|{cfg.get('name')}"
            counts[key] = 1
            failures.append({"key": key, "config": cfg, "expected": "search completes", "observed": r["error"]})
            continue
        states += r["states"]
        transitions += r["transitions"]
        closed = closed and r["closed"]
        orders3.add(",".join(r["import_set_order"][0]))
        orders2.add(",".join(r["import_set_order"][1]))
        per.append({"config": cfg, "states": r["states"], "transitions": r["transitions"], "closed": r["closed"], "new_states_per_depth": r["per_depth"],
                    "histories_without_dedup": r["nodedup_histories"]})
        for v in r["violations"]:
            v["config"] = cfg
            failures.append(v)
        for k, c in r["counts"].items():
            counts[k] = counts.get(k, 0) + c
        for h in r["samples"][:1]:
            samples.append({"config": cfg["name"], "history": [f"{SOURCES[PROBES[k][0]][0]}/{OPTIONS[PROBES[k][1]][0]}" for k in h]})
    for k, o in base.items():
        if o and o[0] in ("baseline-failed",):
            key = "C18|baseline|baseline-process-failed"
            counts[key] = counts.get(key, 0) + 1
            failures.append({"key": key, "expected": "baseline computed", "observed": str(o)})
    seen, uniq = set(), []
    for f in failures:
        if f["key"] not in seen:
            seen.add(f["key"])
            uniq.append(f)
    if not samples:
        samples = [{"history": ["scalar/plain", "imports/wasm"], "then_probe": "vectors/optimize", "must_equal": "baseline(vectors/optimize)"}]
    cov = {"states": max(1, states), "transitions": max(1, transitions), "traces_validated_against_impl": transitions, "samples": samples,
           "evaluations": transitions, "distinct_nontrivial": len(PROBES) * len(per),
           "rule": "alphabet: 8 sources (scalar, loops+locals, struct+globals, overloads+calls, vectors, three imports, rejected in typing, failing "
                   "in lowering) x options {plain, optimize, wasm}; transition = compile one probe with a fresh Compiler(); state = hash of a "
                   "deep snapshot of all module-level values, class attributes and function/method default arguments of the nsl and ply modules "
                   "plus the on-disk parser table cache; every history is replayed in a fork of a pristine interpreter (cache files reset); every "
                   "transition's output (listing + wasm bytes or failure class) must equal the baseline from a fresh process that compiled "
                   "only that probe. BFS with deduplication to closure (depth <= 3) in every configuration, plus all histories of length "
                   "1 (thorough 2 for the first seed) without deduplication. Configurations: hash seeds realising every iteration order of the "
                   "3- and 2-element import sets, and table-cache states {present, absent, written for the other start symbol, truncated}.",
           "exhaustive": closed, "closed": closed, "per_config": per, "import_set_orders_covered": {"three": sorted(orders3), "two": sorted(orders2)},
           "failing_cases_per_key": counts, "bound": {"sources": len(SOURCES), "options": len(OPTIONS), "dedup_depth": 4}}
    return {"level": LEVEL, "coverage": cov, "failures": uniq,
            "assumptions": ["reusing one Compiler object for several compilations is outside the statement ('fresh compiler objects')",
                            "hash-seed nondeterminism is covered through the set iteration orders it produces for the import sets, not all 2^32 seeds"]}


def replay(rec, verbose=True):
    """Re-run the recorded history in the recorded configuration."""
    cfg = rec.get("config") or {"hashseed": 0, "table_cache": "present"}
    top = tempfile.mkdtemp(prefix="nslmc-c18-")
    try:
        work = os.path.join(top, "work")
        os.makedirs(work)
        import pickle
        for name, src in LIBS.items():
            res = compile_src(src)
            if res.ok:
                pickle.dump(res.module, open(os.path.join(work, name + ".nslir"), "wb"))
        base_root = make_root("present", top)
        hist = rec.get("history") or []
        if not hist:
            return False
        k, want = w_baseline((hist[-1], base_root, work, top))
        root = make_root(cfg.get("table_cache", "present"), top)
        code = ("import sys, json; sys.argv = ['x', %r, %r, 'x', 'x']; sys.path.insert(0, %r)\n"
                "import os; os.chdir(%r)\nfrom nslmc import snapshot, c18child\nsnapshot.activate(%r, quiet_tables=False)\n"
                "out = None\nfor k in %r:\n    out = c18child.compile_probe(k)\nprint('@@' + json.dumps(out))\n") % (root, work, VERIF, work, root, hist)
        r = subprocess.run([sys.executable, "-c", code], env=dict(os.environ, PYTHONHASHSEED=str(cfg.get("hashseed", 0)), PYTHONPATH=VERIF),
                           stdout=subprocess.PIPE, stderr=subprocess.PIPE, timeout=600)
        line = [l for l in r.stdout.decode().splitlines() if l.startswith("@@")]
        got = json.loads(line[-1][2:]) if line else ["no-output", r.stderr.decode()[-200:]]
    finally:
        shutil.rmtree(top, ignore_errors=True)
    if verbose:
        print("config", cfg, "\nhistory", [f"{SOURCES[PROBES[k][0]][0]}/{OPTIONS[PROBES[k][1]][0]}" for k in hist])
        print("baseline:", str(want)[:500], "\nobserved:", str(got)[:500])
    return got != want
