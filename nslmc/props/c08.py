"""C08 - binary operators group by the declared precedence, left to right.

Complete enumeration over the operator alphabet (all pairs, triples, quadruples of the 13
binary operators), every parenthesisation the grammar can spell, embeddings and layouts;
oracle = a precedence-climbing reference parser (tree shape) and the reference interpreter
(value on a grid that separates the groupings)."""
import itertools

from .. import pool, snapshot
from ..lang import BINOPS, PREC
from ..nslapi import compile_src, link, new_vm
from ..refsem import Interp, Unspec, values_equal

LEVEL = "exploration"
NAMES = ["a", "b", "c", "d", "e"]
GRID = (-3, -1, 0, 1, 2, 5)


# ------------------------------------------------------------------ reference parser
def tokenize(text):
    toks = []
    i = 0
    ops = sorted(BINOPS + ["(", ")", "=", "+=", "-=", "*=", "/="], key=len, reverse=True)
    while i < len(text):
        ch = text[i]
        if ch in " \t\n":
            i += 1
            continue
        if ch.isdigit() or (ch in "+-" and i + 1 < len(text) and text[i + 1].isdigit()) or (ch == "." and i + 1 < len(text) and text[i + 1].isdigit()):
            j = i + 1
            while j < len(text) and (text[j].isalnum() or text[j] == "."):
                j += 1
            lit = text[i:j]
            toks.append(("num", repr(float(lit)) if ("." in lit and not lit.lower().startswith(("0x", "+0x", "-0x"))) else repr(int(lit, 0) if lit.lower().lstrip("+-").startswith("0x") else (int(lit.lstrip("+-"), 8) * (-1 if lit[0] == "-" else 1) if len(lit.lstrip("+-")) > 1 and lit.lstrip("+-")[0] == "0" else int(lit)))))
            i = j
            continue
        if ch.isalpha() or ch == "_":
            j = i
            while j < len(text) and (text[j].isalnum() or text[j] == "_"):
                j += 1
            toks.append(("id", text[i:j]))
            i = j
            continue
        for o in ops:
            if text.startswith(o, i):
                toks.append(("op", o))
                i += len(o)
                break
        else:
            raise ValueError(f"bad char {ch!r}")
    return toks


def ref_parse(text):
    """Precedence climbing over the six declared levels, left associative, parentheses override."""
    toks = tokenize(text)
    pos = [0]

    def peek():
        return toks[pos[0]] if pos[0] < len(toks) else None

    def primary():
        t = peek()
        pos[0] += 1
        if t == ("op", "("):
            e = expr(1)
            assert peek() == ("op", ")"), text
            pos[0] += 1
            return e
        assert t[0] in ("id", "num"), (text, t)
        return t[1]

    def expr(minp):
        lhs = primary()
        while True:
            t = peek()
            if t is None or t[0] != "op" or t[1] not in PREC or PREC[t[1]] < minp:
                return lhs
            pos[0] += 1
            rhs = expr(PREC[t[1]] + 1)
            lhs = (t[1], lhs, rhs)

    e = expr(1)
    assert pos[0] == len(toks), text
    return e


def tree_to_miniast(t):
    if isinstance(t, str):
        return ("var", t)
    return ("bin", t[0], tree_to_miniast(t[1]), tree_to_miniast(t[2]))


def real_tree(node):
    from nsl import ast, op

    if isinstance(node, ast.AssignmentExpression):
        return ("asg:" + op.OpToStr(node.GetOperation()), real_tree(node.GetLeft()), real_tree(node.GetRight()))
    if isinstance(node, ast.BinaryExpression):
        return (op.OpToStr(node.GetOperation()), real_tree(node.GetLeft()), real_tree(node.GetRight()))
    if isinstance(node, ast.PrimaryExpression):
        return node.GetName()
    if isinstance(node, ast.LiteralExpression):
        return repr(node.GetValue())
    return f"<{type(node).__name__}>"


def parse_real(text):
    p = snapshot.expression_parser()
    try:
        with pool.quiet():
            return real_tree(p.Parse(text))
    except BaseException as e:
        return f"<<{type(e).__name__}>>"


# ------------------------------------------------------------------ text spaces
def shapes(n):
    """All binary tree shapes over operators 0..n-1 in sequence order: nested tuples of op indices."""
    def build(lo, hi):  # operators lo..hi-1, leaves lo..hi
        if lo == hi:
            return [lo]  # leaf index (int)
        out = []
        for k in range(lo, hi):
            for l in build(lo, k):
                for r in build(k + 1, hi):
                    out.append((k, l, r))
        return out
    return build(0, n)


def render_shape(sh, ops, wraps, root=True, path=()):
    if isinstance(sh, int):
        return NAMES[sh]
    k, l, r = sh
    s = f"{render_shape(l, ops, wraps, False, path + (0,))} {ops[k]} {render_shape(r, ops, wraps, False, path + (1,))}"
    if path in wraps:
        s = "(" + s + ")"
    return s


def internal_paths(sh, path=()):
    if isinstance(sh, int):
        return []
    return [path] + internal_paths(sh[1], path + (0,)) + internal_paths(sh[2], path + (1,))


def paren_texts(ops):
    """Every text obtained from a tree shape by wrapping any subset of its binary sub-trees."""
    seen = []
    s = set()
    for sh in shapes(len(ops)):
        ps = internal_paths(sh)
        for r in range(len(ps) + 1):
            for w in itertools.combinations(ps, r):
                t = render_shape(sh, ops, set(w))
                if t not in s:
                    s.add(t)
                    seen.append(t)
    return seen


GAPS = ["", " ", "  ", "\t", "\n", " \n\t"]


def layout_texts(ops, maxdev):
    toks = []
    for i, o in enumerate(ops):
        toks += [NAMES[i], o]
    toks.append(NAMES[len(ops)])
    ngaps = len(toks) - 1
    alts = [g for g in GAPS if g != " "]
    out = []
    for nd in range(1, maxdev + 1):
        for where in itertools.combinations(range(ngaps), nd):
            for choice in itertools.product(alts, repeat=nd):
                gaps = [" "] * ngaps
                for w, c in zip(where, choice):
                    gaps[w] = c
                out.append("".join(t + (gaps[i] if i < ngaps else "") for i, t in enumerate(toks)))
    return out


def full_layouts(ops):
    toks = []
    for i, o in enumerate(ops):
        toks += [NAMES[i], o]
    toks.append(NAMES[len(ops)])
    ngaps = len(toks) - 1
    for gaps in itertools.product(GAPS, repeat=ngaps):
        yield "".join(t + (gaps[i] if i < ngaps else "") for i, t in enumerate(toks))


# ------------------------------------------------------------------ workers
def _key(kind, ops, extra=""):
    lv = ",".join(f"{o}@{PREC[o]}" for o in ops)
    return f"C08|{kind}|wrong-grouping|levels={'/'.join(str(PREC[o]) for o in ops)}|{extra}".rstrip("|")


def w_tree(job):
    """Tree-shape check of a slice of operator tuples."""
    n, lo, hi, mode = job
    fails = []
    evals = 0
    nontriv = 0
    for idx in range(lo, hi):
        ops = _ops_at(n, idx)
        if mode == "plain":
            texts = [" ".join(x for i, o in enumerate(ops) for x in (NAMES[i], o)) + " " + NAMES[n]]
        elif mode == "paren":
            texts = paren_texts(ops)
        elif mode == "layout2":
            texts = layout_texts(ops, 2)
        elif mode == "layoutfull":
            texts = list(full_layouts(ops))
        elif mode == "literal":
            # one operand position holds a literal (signed, unsigned, fractional, hexadecimal, octal); a binary operator is always
            # followed by a blank, so that the sign is the literal's
            texts = []
            for k in range(n + 1):
                for lit_ in ("-7", "+7", "7", "2.5", "0x10", "017", "0"):
                    names = [lit_ if i == k else NAMES[i] for i in range(n + 1)]
                    texts.append(" ".join(x for i, o in enumerate(ops) for x in (names[i], o)) + " " + names[n])
        elif mode == "assign":
            base = " ".join(x for i, o in enumerate(ops) for x in (NAMES[i], o)) + " " + NAMES[n]
            texts = [f"t {aop} {base}" for aop in ("=", "+=", "-=", "*=", "/=")]
        for text in texts:
            evals += 1
            if mode == "assign":
                aop = text.split()[1]
                want = ("asg:" + aop, "t", ref_parse(text.split(None, 2)[2]))
            else:
                want = ref_parse(text)
            got = parse_real(text)
            if _alt_differs(ops):
                nontriv += 1
            if got != want:
                fails.append({"key": _key("tree-" + mode, ops), "part": "tree", "text": text,
                              "expected": _show(want), "observed": _show(got)})
    return evals, nontriv, _cap(fails)


def _alt_differs(ops):
    return len(ops) >= 2


def _show(t):
    if isinstance(t, str):
        return t
    return f"({_show(t[1])} {t[0]} {_show(t[2])})"


def _cap(fails, per_key=2):
    seen = {}
    out = []
    for f in fails:
        c = seen.get(f["key"], 0)
        seen[f["key"]] = c + 1
        if c < per_key:
            out.append(f)
    for k, c in seen.items():
        out.append({"key": k, "count_only": c})
    return out


def _ops_at(n, idx):
    ops = []
    for _ in range(n):
        ops.append(BINOPS[idx % 13])
        idx //= 13
    return tuple(reversed(ops))


EMBEDS = {
    "return": "export function f(int a, int b, int c, int d) -> int {{ return {e}; }}",
    "init": "export function f(int a, int b, int c, int d) -> int {{ int t = {e}; return t; }}",
    "assign": "export function f(int a, int b, int c, int d) -> int {{ int t = 1; t = {e}; return t; }}",
    "pluseq": "export function f(int a, int b, int c, int d) -> int {{ int t = 1; t += {e}; return t; }}",
    "minuseq": "export function f(int a, int b, int c, int d) -> int {{ int t = 1; t -= {e}; return t; }}",
    "callarg": "function g(int p, int q) -> int {{ return p * 100 + q; }}\nexport function f(int a, int b, int c, int d) -> int {{ return g({e}, 7); }}",
    "ctorarg": "export function f(int a, int b, int c, int d) -> int {{ int2 v = int2({e}, 7); return v[0]; }}",
    "if": "export function f(int a, int b, int c, int d) -> int {{ if ({e}) {{ return 1; }} return 0; }}",
    "while": "export function f(int a, int b, int c, int d) -> int {{ int n = 0; while ({e}) {{ n = n + 1; if (n > 1) {{ break; }} }} return n; }}",
    "for": "export function f(int a, int b, int c, int d) -> int {{ int n = 0; for (int i = 0; {e}; ++i) {{ n = n + 1; if (n > 1) {{ break; }} }} return n; }}",
    "index": "export function f(int a, int b, int c, int d) -> int {{ int[4] r; r[0] = 10; r[1] = 11; r[2] = 12; r[3] = 13; return r[{e}]; }}",
}


def _embed_expect(kind, v):
    """Reference value of the embedding given the value v of the embedded expression."""
    if kind in ("return", "init", "assign"):
        return v
    if kind == "pluseq":
        return 1 + v
    if kind == "minuseq":
        return 1 - v
    if kind == "callarg":
        return v * 100 + 7
    if kind == "ctorarg":
        return v
    if kind == "if":
        return 1 if v != 0 else 0
    if kind in ("while", "for"):
        return 2 if v != 0 else 0
    if kind == "index":
        if not (0 <= v < 4):
            raise Unspec("index out of range")
        return 10 + v
    raise KeyError(kind)


def _eval_tree(t, env):
    it = Interp({"funcs": [], "globals": [], "structs": []})
    it.scopes = [{k: ["int", v] for k, v in env.items()}]
    ty, v = it.ev(tree_to_miniast(t))
    return v


def w_value(job):
    """Value check: compile `return <text>` (or an embedding) and run it on the separating grid."""
    n, lo, hi, kinds, paren = job
    fails = []
    evals = 0
    nontriv = 0
    for idx in range(lo, hi):
        ops = _ops_at(n, idx)
        texts = paren_texts(ops) if paren else [" ".join(x for i, o in enumerate(ops) for x in (NAMES[i], o)) + " " + NAMES[n]]
        for text in texts:
            want_tree = ref_parse(text)
            # alternative groupings of the same token string, to know whether values can tell them apart
            alts = [a for a in (ref_parse(t) for t in paren_texts(ops)) if a != want_tree] if not paren else []
            for kind in kinds:
                src = EMBEDS[kind].format(e=text)
                res = compile_src(src)
                evals += 1
                if not res.ok:
                    fails.append({"key": _key("value-" + kind, ops, "not-compiled:" + res.cls()), "part": "value", "source": src,
                                  "expected": "compiles", "observed": res.cls()})
                    continue
                prog = link(res.module)
                observable = False
                bad = None
                for vals in itertools.product(GRID, repeat=n + 1):
                    env = dict(zip(NAMES, vals))
                    try:
                        want = _embed_expect(kind, _eval_tree(want_tree, env))
                    except Unspec:
                        continue
                    if not observable:
                        for a in alts:
                            try:
                                if _embed_expect(kind, _eval_tree(a, env)) != want:
                                    observable = True
                                    break
                            except Unspec:
                                observable = True
                                break
                    args = {k: env.get(k, 0) for k in ("a", "b", "c", "d")}
                    try:
                        with pool.time_limit(2.0):
                            got = new_vm(prog).Invoke("f", **args)
                    except pool.Timeout:
                        got = "<<timeout>>"
                    except Exception as e:
                        got = f"<<{type(e).__name__}>>"
                    if not values_equal(got, want):
                        bad = (args, want, got)
                        break
                if observable:
                    nontriv += 1
                if bad:
                    fails.append({"key": _key("value-" + kind, ops), "part": "value", "source": src, "inputs": bad[0],
                                  "expected": bad[1], "observed": bad[2], "text": text})
    return evals, nontriv, _cap(fails)



def w_both(job):
    """The same operand and operator sequence with ALL its groupings in ONE statement: `int3(a o1 b o2 c, (a o1 b) o2 c, a o1 (b o2 c))`.
    Each component has the value of its own grouping (a lowering that recognises `equal' subexpressions by their flat spelling
    would hand one grouping's value to the other)."""
    lo, hi = job
    fails, evals, nontriv = [], 0, 0
    for idx in range(lo, hi):
        ops = _ops_at(2, idx)
        o1, o2 = ops
        texts = [f"a {o1} b {o2} c", f"(a {o1} b) {o2} c", f"a {o1} (b {o2} c)"]
        for order in ((0, 1, 2), (2, 1, 0), (1, 2, 0)):
            ts = [texts[k] for k in order]
            trees = [ref_parse(t) for t in ts]
            src = "export function f(int a, int b, int c, int d) -> int3 { return int3(" + ", ".join(ts) + "); }"
            res = compile_src(src)
            evals += 1
            if not res.ok:
                fails.append({"key": _key("value-all-groupings", ops, "not-compiled:" + res.cls()), "part": "value", "source": src, "expected": "compiles", "observed": res.cls()})
                continue
            prog = link(res.module)
            nontriv += 1
            for vals in itertools.product(GRID, repeat=3):
                env = dict(zip(NAMES, vals))
                try:
                    want = [_eval_tree(t, env) for t in trees]
                except Unspec:
                    continue
                args = {k: env.get(k, 0) for k in ("a", "b", "c", "d")}
                try:
                    with pool.time_limit(2.0):
                        got = new_vm(prog).Invoke("f", **args)
                except Exception as e:
                    got = f"<<{type(e).__name__}>>"
                if not values_equal(got, want):
                    fails.append({"key": _key("value-all-groupings", ops), "part": "value", "source": src, "inputs": args, "expected": want, "observed": got, "text": ts[0]})
                    break
    return evals, nontriv, _cap(fails)


TYPED_PATTERNS = [("int2", "int", "int"), ("int", "int2", "int"), ("int2", "int2", "int"), ("int2", "int", "int2"), ("float", "int", "int"), ("int", "float", "int"), ("int", "int", "float"),
                  ("float2", "float", "int"), ("int3", "int", "float")]
TYPED_VALUES = {"int": [3, 2, -5], "float": [2.5, 0.5, 4.0], "int2": [[7, -9], [4, 5], [2, -3]], "int3": [[7, -9, 4], [1, 2, 3], [5, 5, 5]], "float2": [[1.5, -2.5], [0.5, 4.0], [2.0, 3.0]]}


def w_typed(job):
    """Grouping is a matter of the operators, not of the operand types: `a op1 b op2 c` with vector / float operands in every
    position pattern computes what the reference grouping computes (a lowering that regroups scaled vectors shows here)."""
    from .. import engine
    from ..refsem import RefError
    lo, hi = job
    ar = ["+", "-", "*", "/", "%"]
    tmap = {"int": "int", "float": "float", "int2": ("vec", "int", 2), "int3": ("vec", "int", 3), "float2": ("vec", "float", 2)}
    fails, evals, nontriv = [], 0, 0
    for idx in range(lo, hi):
        pat = TYPED_PATTERNS[idx // 25]
        o1, o2 = ar[(idx // 5) % 5], ar[idx % 5]
        for text in (f"a {o1} b {o2} c", f"a {o1} (b {o2} c)", f"(a {o1} b) {o2} c"):
            tree = tree_to_miniast(ref_parse(text))
            args = {n: TYPED_VALUES[t][k] for k, (n, t) in enumerate(zip("abc", pat))}
            params = [(tmap[t], n) for n, t in zip("abc", pat)]
            try:
                it = Interp({"structs": [], "globals": [], "imports": [], "funcs": []})
                it.scopes, it.globals = [{n: [ty, args[n]] for ty, n in params}], {}
                rt, _ = it.ev(tree)       # static type by the reference rules; combinations it does not type are not this slice's
            except Exception:
                continue
            f = {"name": "f", "params": params, "ret": rt, "body": [("ret", tree)], "export": True}
            evals += 1
            nontriv += 1
            agg = engine.Agg()
            case = {"fam": "typed", "desc": f"{','.join(pat)};{o1},{o2}", "mode": "min" if "(" not in text else "min", "units": [{"funcs": [f], "entry": "f", "inputs": [(args, {})]}]}
            engine.check_ref("C08", case, agg)
            for fl in agg.fails:
                fl["key"] = f"C08|typed|{fl['key'].split('|')[2]}|levels={PREC[o1]}/{PREC[o2]}|{','.join(pat)}"
                fl["part"] = "typed"
                fails.append(fl)
    return evals, nontriv, _cap(fails)


def rejob(x):
    """Re-execute one worker job (used by ./check --rejob for history-dependent failures)."""
    def tup(v):
        return tuple(tup(y) for y in v) if isinstance(v, list) else v
    return globals()[x[0]](tup(x[1]))


def _dispatch(job):
    fn, arg = job
    return fn(arg)


def _slices(total, step):
    return [(lo, min(total, lo + step)) for lo in range(0, total, step)]


REPRESENTATIVE = [("+", "*"), ("-", "-"), ("*", "+"), ("/", "*"), ("%", "+"), ("<", "+"), ("<=", "=="), (">", "-"), (">=", "&&"),
                  ("==", "<"), ("!=", "||"), ("&&", "||"), ("||", "&&")]


def run(tier, seed):
    thorough = tier == "thorough"
    jobs = []
    # jobs are hermetic (one fresh interpreter each): a few dozen coarse slices
    for n, step in ((2, 43), (3, 550)):
        for lo, hi in _slices(13 ** n, step):
            jobs.append((w_tree, (n, lo, hi, "plain")))
            jobs.append((w_tree, (n, lo, hi, "paren")))
            jobs.append((w_tree, (n, lo, hi, "assign")))
    for lo, hi in _slices(13 ** 4, 7200):
        jobs.append((w_tree, (4, lo, hi, "plain")))
    for n, step in ((1, 13), (2, 43), (3, 550)):
        for lo, hi in _slices(13 ** n, step):
            jobs.append((w_tree, (n, lo, hi, "literal")))
    if thorough:
        for lo, hi in _slices(13 ** 4, 1800):
            jobs.append((w_tree, (4, lo, hi, "paren")))
    for lo, hi in _slices(169, 22):
        jobs.append((w_tree, (2, lo, hi, "layout2")))
    for lo, hi in _slices(len(TYPED_PATTERNS) * 25, 45):
        jobs.append((w_typed, (lo, hi)))
    for lo, hi in _slices(169, 22):
        jobs.append((w_both, (lo, hi)))
    for o1, o2 in REPRESENTATIVE:
        idx = BINOPS.index(o1) * 13 + BINOPS.index(o2)
        jobs.append((w_tree, (2, idx, idx + 1, "layoutfull")))
    # value: all pairs in every embedding; triples via return (quick: plain; thorough: every parenthesisation)
    allk = tuple(EMBEDS)
    for lo, hi in _slices(169, 11):
        jobs.append((w_value, (2, lo, hi, allk, False)))
    for lo, hi in _slices(169, 43):
        jobs.append((w_value, (2, lo, hi, ("return",), True)))
    for lo, hi in _slices(2197, 140):
        jobs.append((w_value, (3, lo, hi, ("return",), False)))
    if thorough:
        for lo, hi in _slices(2197, 35):
            jobs.append((w_value, (3, lo, hi, ("return", "assign"), True)))
    rot = seed % len(jobs) if seed else 0
    order = jobs[rot:] + jobs[:rot]
    results = pool.pmap(_dispatch, order)
    evals = nontriv = 0
    failures = []
    counts = {}
    per = {}
    for (fn, arg), (e, nt, fl) in zip(order, results):
        for _f in fl:
            if isinstance(_f, dict) and "key" in _f:
                _f.setdefault("job", {"fn": "nslmc.props.c08:rejob", "arg": [fn.__name__, arg]})
        evals += e
        nontriv += nt
        nm = fn.__name__ + ":" + (arg[3] if fn is w_tree else "n=%d" % arg[0])
        per[nm] = per.get(nm, 0) + e
        for f in fl:
            if "count_only" in f:
                counts[f["key"]] = counts.get(f["key"], 0) + f["count_only"]
            else:
                failures.append(f)
    seen = set()
    uniq = []
    for f in failures:
        if f["key"] not in seen:
            seen.add(f["key"])
            uniq.append(f)
    i = seed % 169
    o = _ops_at(2, i)
    samples = [{"text": f"a {o[0]} b {o[1]} c", "reference_tree": _show(ref_parse(f"a {o[0]} b {o[1]} c"))},
               {"text": "a - b - c", "reference_tree": _show(ref_parse("a - b - c"))},
               {"text": "a\t<b \n\t+ c", "reference_tree": _show(ref_parse("a\t<b \n\t+ c"))},
               {"embedding": "pluseq", "source": EMBEDS["pluseq"].format(e="a * b + c")}]
    cov = {
        "evaluations": evals,
        "distinct_nontrivial": nontriv,
        "rule": "all 169 pairs, 2197 triples and 28561 quadruples of the 13 binary operators as unparenthesised texts, every "
                "parenthesisation the grammar can spell (pairs, triples; quadruples in thorough), assignment/compound-assignment "
                "right-hand sides, <=2 deviating gaps over the gap alphabet for all pairs and the complete 6^4 layout product for 13 "
                "representative pairs: real parser tree vs precedence-climbing reference; value checks of all pairs in 11 embeddings "
                "and all triples on the grid {-3,-1,0,1,2,5}^(n+1). Non-trivial = tree cases with >=2 operators (a grouping choice "
                "exists) plus value cases whose alternative groupings are distinguishable on the grid (measured).",
        "samples": samples,
        "exhaustive": True,
        "bound": {"operators": 13, "max_ops_tree": 4, "max_ops_value": 3, "layout_deviations": 2, "gap_alphabet": GAPS},
        "per_part": per,
        "failing_cases_per_key": counts,
    }
    return {"level": LEVEL, "coverage": cov, "failures": uniq,
            "assumptions": ["operands are identifiers, or (mode literal) one literal per expression; a sign directly in front of digits is part of the literal, as the lexer has it",
                            "expressions with more than four operators are not enumerated"]}


def replay(rec, verbose=True):
    if rec.get("part") == "typed":
        from ..engine import replay_ref
        return replay_ref(rec, verbose)
    if rec.get("part") == "tree":
        text = rec["text"]
        if text.startswith("t ") and text.split()[1] in ("=", "+=", "-=", "*=", "/="):
            want = ("asg:" + text.split()[1], "t", ref_parse(text.split(None, 2)[2]))
        else:
            want = ref_parse(text)
        got = parse_real(text)
        if verbose:
            print(f"text={text!r}\n expected {_show(want)}\n observed {_show(got)}")
            print("def test_replay():\n    from nsl.parser import NslParser, ParseEntryPoint\n"
                  f"    t = NslParser(ParseEntryPoint.Expression).Parse({text!r})\n    # expected grouping: {_show(want)}\n    print(t)")
        return got != want
    src = rec["source"]
    res = compile_src(src)
    if not res.ok:
        if verbose:
            print("does not compile:", res.cls())
        return True
    if "inputs" not in rec:
        return False
    try:
        with pool.time_limit(2.0):
            got = new_vm(link(res.module)).Invoke("f", **rec["inputs"])
    except BaseException as e:
        got = f"<<{type(e).__name__}>>"
    if verbose:
        print(src, rec["inputs"], "expected", rec["expected"], "observed", got)
        print("def test_replay():\n    from nsl import Compiler, LinearIR, VM\n"
              f"    r = Compiler.Compiler().Compile({src!r})\n    l = LinearIR.Linker(); l.AddModule(r.IRModule)\n"
              f"    assert VM.VirtualMachine(l.Link()).Invoke('f', **{rec['inputs']!r}) == {rec['expected']!r}")
    return not values_equal(got, rec["expected"])
