"""C05 - accepted programs do not go wrong (safety oracle at both optimisation levels)."""
from .. import checkers
from ._famprop import make


def FAMS(tier):
    base = ["T", "D", "R", "O", "K", "C", "V", "M", "U", "G", "CG", "H", "DF", "F", "N", "X"]
    if tier == "quick":
        return base
    # F and N have their deep bounds in C11 / C12 (same programs, stronger oracle there); here they stay at the quick bound
    return [f + "@quick" if f in ("F", "N") else f for f in base] + ["E", "S"]


run, replay = make(
    "C05", "safe", FAMS,
    rule="Safety oracle: for every program the front end accepts (R2: the AST passes let it through), lowering, the IR passes at "
         "optimize=False and True, linking and VM execution on type-correct inputs (two value patterns per parameter, every global set) "
         "must not fail, except with ZeroDivisionError. Space: all program families of the other properties plus type grids walking the "
         "fence of the front end: every binary operator x every ordered pair of the 14 spellable primitive types; assignment, "
         "initialisation, compound assignment, global assignment and return between every pair of types incl. struct and arrays; call "
         "argument x parameter type; constructors of every vector/matrix type x every argument list of up to 4 arguments over "
         "{int,float,uint,vec2,vec3}; 13 element-selection forms (read, write, copy) on every type; ++/-- on every type; if/while/for/do "
         "with a condition of every type; declarations of every type as local/global/parameter/return; assignment used as a value.",
    nontrivial_note="distinct_nontrivial counts compilations that passed the front end plus their executed inputs (rejected programs are trivial for this property).",
    assumptions=["a failure whose innermost nsl frame lies in the back-end files listed in nslapi.BACKEND_FILES happened after the gate (R2)",
                 "generated dynamic indices are in range, so IndexError is not expected either"],
    replayer=checkers.replay_safe,
)
