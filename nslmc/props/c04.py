"""C04 - vectors and matrices are values: component ops, swizzles, copies."""
from ._famprop import make

run, replay = make(
    "C04", "ref_both", ["V"],
    rule="Complete grids over float/int vectors of 2-4 components and float3x3/float4x4: every swizzle read mask of length 1-4 (any "
         "order, repetition; both letter sets; whole expression, operand of +, swizzle of swizzle); every non-repeating write mask with "
         "scalar/vector right-hand side on locals, parameters, globals, array elements (constant and dynamic index), struct fields and "
         "matrix rows; every constant and in-range dynamic index read/write on vectors, matrix rows and elements; + - comparisons "
         "% && || on vectors, * / by scalar, scalar * vector/matrix, matrix + - *, matrix * vector; every composition of 2-4 components "
         "into constructor arguments from {scalar, vec2, vec3}, matrices from rows; copies mutated through each write form. After every "
         "write all variables in scope are read back (selected by an input). Component values are pairwise distinct. Oracle: reference interpreter.",
    nontrivial_note="distinct_nontrivial = (program, input) pairs with a specified reference result.",
    assumptions=["floats are dyadic so binary32/64 agree", "writes with repeating masks and swizzles on scalars are not generated (R1)"],
)
