"""C14 - every compiled IR module is well-formed (both optimisation levels)."""
from .. import checkers
from ._famprop import make

def FAMS(tier):
    return (["E1"] if tier == "quick" else ["E"]) + ["S", "D", "R", "O", "K", "C", "V", "M", "U", "G", "CG", "H", "DF"]

run, replay = make(
    "C14", "irwf", FAMS,
    rule="Every module compiled from the program families, at optimize=False and optimize=True, is checked function by function: "
         "references unique; each operand a Value naming a constant of the function or an instruction still in it; branch targets "
         "are blocks of the function; calls name a function of the linked program with equal arity; and a forward must-defined "
         "analysis iterated to the greatest fixpoint over the instruction-level CFG proves every use is preceded by its definition "
         "on every path (the fixpoint is an exhaustive exploration of all paths, loops included).",
    nontrivial_note="One evaluation = one compiled function at one optimisation level; all are distinct program texts/configurations.",
    assumptions=["references are compared by number (the VM resolves operands by number), not by object identity",
                 "unreachable code is checked for operand existence only"],
    replayer=checkers.replay_irwf,
)


# ------------------------------------------------------------------ calls against a program linked from several modules
import itertools
import os
import pickle
import shutil
import tempfile

from .. import pool, snapshot
from ..nslapi import compile_src

LINKED = {
    # name: ({module: source}, root, every function that has to be in the linked program)
    "chain-1": ({"leaf": "function lf(int a) -> int { return a + 1; }\n",
                 "app": 'import "leaf";\nexport function f(int a) -> int { return lf(a) * 2; }\n'}, "app"),
    "chain-2": ({"leaf": "function lf(int a) -> int { return a + 1; }\n",
                 "mid": 'import "leaf";\nfunction md(int a) -> int { return lf(a) * 2; }\n',
                 "app": 'import "mid";\nexport function f(int a) -> int { return md(a) + 1; }\n'}, "app"),
    "chain-3": ({"leaf": "function lf(int a) -> int { return a + 1; }\n",
                 "low": 'import "leaf";\nfunction lw(int a) -> int { return lf(a) + lf(a + 1); }\n',
                 "mid": 'import "low";\nfunction md(int a) -> int { return lw(a) * 2; }\n',
                 "app": 'import "mid";\nexport function f(int a) -> int { return md(a) + 1; }\n'}, "app"),
    "diamond": ({"leaf": "function lf(float x) -> float { return x * 0.5; }\nfunction lf(int a) -> int { return a + 1; }\n",
                 "ma": 'import "leaf";\nfunction fa(int a) -> int { return lf(a); }\n',
                 "mb": 'import "leaf";\nfunction fb(float x) -> float { return lf(x); }\n',
                 "app": 'import "ma";\nimport "mb";\nexport function f(int a) -> float { return fa(a) + fb(a); }\n'}, "app"),
    # the imported module's function overloads one of the importing module (the call still leaves the module)
    "overload-across-modules": ({"lib": "function scale(float4 v, float k) -> float4 { return v * k; }\nfunction only(int a) -> int { return a + 1; }\n",
                                 "app": 'import "lib";\nfunction scale(float2 v, float k) -> float2 { return v * k; }\nexport function f(float k) -> float { float4 w = scale(float4(1.0, 2.0, 3.0, 4.0), k); float2 u = scale(float2(1.0, 2.0), k); return w[3] + u[1]; }\n'}, "app"),
    "overload-across-modules-only-import-called": ({"lib": "function scale(float4 v, float k) -> float4 { return v * k; }\n",
                                                    "app": 'import "lib";\nfunction scale(float2 v, float k) -> float2 { return v * k; }\nexport function f(float k) -> float { float4 w = scale(float4(1.0, 2.0, 3.0, 4.0), k); return w[3]; }\n'}, "app"),
    "struct-only-import": ({"lib": "struct Pt { int x; int y; }\n", "app": 'import "lib";\nexport function f(int a) -> int { Pt p; p.x = a; return p.x; }\n'}, "app"),
    "fan-then-chain": ({"zz": "function zf(int a) -> int { return a - 1; }\n",
                        "aa": 'import "zz";\nfunction af(int a) -> int { return zf(a) * 3; }\n',
                        "bb": "function bf(int a) -> int { return a * 5; }\n",
                        "app": 'import "bb";\nimport "aa";\nexport function f(int a) -> int { return af(a) + bf(a); }\n'}, "app"),
}


# the same program names written twice: the second time an imported module has another interface (and its importers follow)
LINKED_TWICE = {
    "chain-2-leaf-gets-a-parameter": ("chain-2", {"leaf": "function lf(int a, int b) -> int { return a + b; }\nfunction other(int a) -> int { return a; }\n",
                                                  "mid": 'import "leaf";\nfunction md(int a, int b) -> int { return lf(a, b) * 2 + other(a); }\n',
                                                  "app": 'import "mid";\nexport function f(int a) -> int { return md(a, 2) + 1; }\n'}),
    "diamond-leaf-renamed": ("diamond", {"leaf": "function lg(float x) -> float { return x * 0.5; }\nfunction lg(int a) -> int { return a + 1; }\n",
                                         "ma": 'import "leaf";\nfunction fa2(int a, int b) -> int { return lg(a) + b; }\n', "mb": 'import "leaf";\nfunction fb(float x) -> float { return lg(x); }\n',
                                         "app": 'import "ma";\nimport "mb";\nexport function f(int a) -> float { return fa2(a, 1) + fb(a); }\n'}),
}


def w_linked(job):
    """Modules are compiled in dependency order, stored, and the root is linked through its imports; every function of the linked
    program is then checked against THAT program (a call must name one of its functions, with the same number of arguments)."""
    from nsl import LinearIR as L
    from .. import irwf as W
    name, opt = job
    second = None
    if name in LINKED_TWICE:
        base, second = LINKED_TWICE[name]
        mods, root = LINKED[base]
    else:
        mods, root = LINKED[name]
    fails, n = [], 0
    d = tempfile.mkdtemp(prefix="nslmc-c14-", dir=snapshot._tmp_root())
    old = os.getcwd()
    try:
        os.chdir(d)
        for phase, mods in enumerate([mods] + ([dict(mods, **second)] if second else [])):
            done = set()
            order = []
            while len(order) < len(mods):          # dependency order: a module after everything it imports
                for m, src in mods.items():
                    deps = [x.split('"')[1] for x in src.splitlines() if x.startswith("import")]
                    if m not in done and all(x in done for x in deps):
                        order.append(m)
                        done.add(m)
            for m in order:
                res = compile_src(mods[m], {"optimize": bool(opt)})
                if not res.ok:
                    fails.append({"key": f"C14|linked|module-not-compiled|{name}", "linked": [name, opt], "source": mods[m], "expected": "compiles", "observed": res.cls() + " " + (res.msg or "")})
                    return n, fails
                with open(m + ".nslir", "wb") as fh:
                    pickle.dump(res.module, fh)
            try:
                lk = L.Linker()
                lk.AddModule(L.FilesystemModuleLoader().Load(root))
                program = lk.Link()
            except BaseException as e:
                fails.append({"key": f"C14|linked|link-fails|{name}", "linked": [name, opt], "source": repr(mods), "expected": "links", "observed": f"{type(e).__name__}: {e}"})
                return n, fails
            for fn in program.Functions.values():
                n += 1
                for p in W.check_function(fn, program, L):
                    fails.append({"key": f"C14|linked|{p['kind']}|{p['where']}|{name}", "linked": [name, opt], "source": "\n---- ".join(f"{k}:\n{v}" for k, v in mods.items()),
                                  "expected": "every call names a function of the linked program", "observed": p["detail"]})
    finally:
        os.chdir(old)
        shutil.rmtree(d, ignore_errors=True)
    return n, fails


_family_run, _family_replay = run, replay


def run(tier, seed):
    out = _family_run(tier, seed)
    jobs = [(name, o) for name in list(LINKED) + list(LINKED_TWICE) for o in (0, 1)]
    m = 0
    seen = {f["key"] for f in out["failures"]}
    for a, fl in pool.pmap(w_linked, jobs):     # hermetic: a loader cache must not travel from one job to another
        m += a
        for f in fl:
            out["coverage"]["failing_cases_per_key"][f["key"]] = out["coverage"]["failing_cases_per_key"].get(f["key"], 0) + 1
            if f["key"] not in seen:
                out["failures"].append(f)
                seen.add(f["key"])
    out["coverage"]["evaluations"] += m
    out["coverage"]["distinct_nontrivial"] += m
    out["coverage"]["per_family"]["linked(import chains of depth 1-3, diamond, fan: functions checked against the program linked through imports)"] = m
    return out


def replay(rec, verbose=True):
    if "linked" in rec:
        n, fl = w_linked(tuple(rec["linked"]))
        if verbose:
            print(rec["source"])
            print(fl)
        return any(f["key"] == rec["key"] for f in fl)
    return _family_replay(rec, verbose)
