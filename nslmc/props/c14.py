"""C14 - every compiled IR module is well-formed (both optimisation levels)."""
from .. import checkers
from ._famprop import make

def FAMS(tier):
    return (["E1"] if tier == "quick" else ["E"]) + ["S", "D", "R", "O", "K", "C", "V", "M", "U", "G", "CG", "H", "DF"]

run, replay = make(
    "C14", "irwf", FAMS,
    rule="Every module compiled from the program families, at optimize=False and optimize=True, is checked function by function: "
         "references unique; each operand a Value naming a constant of the function or an instruction still in it; branch targets "
         "are blocks of the function; calls name a function of the linked program with equal arity; and a forward must-defined "
         "analysis iterated to the greatest fixpoint over the instruction-level CFG proves every use is preceded by its definition "
         "on every path (the fixpoint is an exhaustive exploration of all paths, loops included).",
    nontrivial_note="One evaluation = one compiled function at one optimisation level; all are distinct program texts/configurations.",
    assumptions=["references are compared by number (the VM resolves operands by number), not by object identity",
                 "unreachable code is checked for operand existence only"],
    replayer=checkers.replay_irwf,
)
