"""C11 - break and continue are accepted exactly inside loops (and refer to the innermost loop)."""
from .. import checkers
from ._famprop import make

run, replay = make(
    "C11", "gate", ["F"],
    rule="All statement skeletons with <=4 (thorough 5; 6 restricted to one break/continue under >=2 loops) nodes over {atom, return, "
         "break, continue, `while(c);`, if, if/else, for, while, do, blocks of 2-3} that contain one or two break/continue leaves at "
         "ANY leaf position, each rendered with braced and with unbraced single-statement bodies, plus two-function programs where a "
         "function ending inside a loop nest is followed by one with a stray break/continue. Oracle: rejected iff some break/continue "
         "is lexically outside every loop of its function (computed on the skeleton). Accepted programs are run on the VM and "
         "compared with the reference interpreter through a trace variable, which decides 'innermost enclosing loop' by value.",
    nontrivial_note="Every case contains at least one break/continue; non-trivial = decision cases plus specified (program, input) runs.",
    assumptions=["'rejected' = Compile returns None or raises before lowering (R2); a failure after the AST gate counts as accepted by the gate"],
    replayer=checkers.replay_gate,
    bound=lambda tier: {"nodes": 4 if tier == "quick" else 5, "break_continue_leaves": "1-2"},
)
