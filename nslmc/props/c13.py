"""C13 - static checks on element selection: constant bounds, index type, swizzle mask."""
from .. import checkers
from ._famprop import make

run, replay = make(
    "C13", "gate", ["X"],
    rule="Complete grids. Bounds: arrays of 1-3 dimensions with every size vector in {1,2,3}^d (quick: a subset of the 3-D shapes), int "
         "and float elements, global and local; at each position k of the access chain every constant from -2 to size_k+1 (decimal; "
         "hex/octal where the sign allows), the other positions holding an in-range constant or a dynamic index; reads and writes; "
         "partial chains; vectors of 2-4 components of each component type; rows, columns and row vectors of float3x3/float4x4. Index "
         "type: every chain position x 13 index expressions (int/uint literals, variables, expressions; float literal, variable, "
         "expression; int2; struct). Swizzle masks: every string of length 1-3 (thorough 1-4) over xyzwrgba on float2/3/4 as read, the "
         "non-repeating ones also as write, masks with foreign letters, int/uint vectors. Oracle: accept iff every constant index is in "
         "[0,size), every index expression is int/uint, the mask uses one letter set and only components the vector has.",
    nontrivial_note="Every case is a distinct program text with a specified decision.",
    assumptions=["'rejected' = Compile returns None or raises before lowering (R2)"],
    replayer=checkers.replay_gate,
)
