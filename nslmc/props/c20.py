"""C20 - reported source positions designate the text they talk about.

(1) SourceMapping: every text of length <= 12 (quick 10) over {a, newline} x every offset;
(2) Location.__str__ on every span of those texts (length <= 8): the printed 1-based,
    end-exclusive range must map back to exactly the span;
(3) layouts of fixed token sequences: all placements of <= 2 (thorough 3 on the short programs)
    deviating gaps + leading text; every located node must carry exactly the offsets of its
    token (computed by the layout renderer), parents must cover their parts after
    UpdateLocations, and the redeclaration diagnostic must print the ranges of both declarations."""
import itertools
import re

from .. import pool
from ..nslapi import compile_src

LEVEL = "exploration"


# ------------------------------------------------------------------ (1) + (2)
OTHER_CHARS = ["\r", "\t", " ", "\x0b", "\x0c", "\x1c", "\x1d", "\x1e", "\x85", "\u2028", "\u2029", "\x00"]


def texts(maxlen):
    for n in range(0, maxlen + 1):
        for t in itertools.product("a\n", repeat=n):
            yield "".join(t)
    # only the line feed ends a line: every other character (carriage return, form feed, the Unicode separators that
    # str.splitlines() honours ...) is an ordinary character of its line
    for ch in OTHER_CHARS:
        for n in range(1, min(maxlen, 6) + 1):
            for t in itertools.product("a\n" + ch, repeat=n):
                if ch in t:
                    yield "".join(t)


def ref_line(text, off):
    return text.count("\n", 0, off)


def ref_line_start(text, line):
    pos = 0
    for _ in range(line):
        pos = text.index("\n", pos) + 1
    return pos


def parse_loc(s):
    m = re.fullmatch(r"(\d+):(\d+)-(\d+)", s)
    if m:
        l, c1, c2 = map(int, m.groups())
        return (l, c1, l, c2)
    m = re.fullmatch(r"(\d+):(\d+)-(\d+):(\d+)", s)
    if m:
        return tuple(map(int, m.groups()))
    return None


def loc_to_span(text, s):
    """Map a printed range back to offsets by the printed convention (1-based, end-exclusive)."""
    p = parse_loc(s)
    if p is None:
        return None
    l1, c1, l2, c2 = p
    nlines = text.count("\n") + 1
    if not (1 <= l1 <= nlines and 1 <= l2 <= nlines):
        return None
    return (ref_line_start(text, l1 - 1) + c1 - 1, ref_line_start(text, l2 - 1) + c2 - 1)


def w_mapping(job):
    from nsl import ast

    maxlen, shard, nshards, span_max = job
    fails, counts = [], {}
    n = nt = 0

    def fail(key, rec):
        counts[key] = counts.get(key, 0) + 1
        if counts[key] <= 2:
            rec["key"] = key
            fails.append(rec)

    for i, text in enumerate(texts(maxlen)):
        if i % nshards != shard:
            continue
        sm = ast.SourceMapping(text)
        nl = text.count("\n")
        for off in range(len(text) + 1):
            n += 1
            if nl:
                nt += 1
            want = ref_line(text, off)
            try:
                got = sm.GetLineFromOffset(off)
            except Exception as e:
                got = type(e).__name__
            if got != want:
                fail("C20|mapping|GetLineFromOffset|" + ("at-newline" if off < len(text) and text[off] == "\n" else "after-newline" if off and text[off - 1] == "\n" else "inside-line"),
                     {"part": "mapping", "text": text, "offset": off, "expected": want, "observed": got})
        if len(text) <= 7 and nl:
            # the answer for an offset does not depend on which offsets were asked before: every ordered pair on ONE mapping object
            sm2 = ast.SourceMapping(text)
            for o1 in range(len(text) + 1):
                for o2 in range(len(text) + 1):
                    n += 1
                    try:
                        sm2.GetLineFromOffset(o1)
                        got = sm2.GetLineFromOffset(o2)
                    except Exception as e:
                        got = type(e).__name__
                    if got != ref_line(text, o2):
                        fail("C20|mapping|GetLineFromOffset-depends-on-earlier-lookup", {"part": "mapping", "text": text, "offset": o2, "after_offset": o1, "expected": ref_line(text, o2), "observed": got})
        for line in range(nl + 1):
            n += 1
            want = ref_line_start(text, line)
            try:
                got = sm.GetLineStartOffset(line)
            except Exception as e:
                got = type(e).__name__
            if got != want:
                fail("C20|mapping|GetLineStartOffset", {"part": "mapping", "text": text, "line": line, "expected": want, "observed": got})
        if len(text) <= span_max:
            for b in range(len(text) + 1):
                for e in range(b, len(text) + 1):
                    n += 1
                    nt += 1
                    try:
                        s = str(ast.Location((b, e), sm))
                    except Exception as ex:
                        s = type(ex).__name__
                    back = loc_to_span(text, s)
                    if back != (b, e):
                        multi = "\n" in text[b:e]
                        fail("C20|location-str|" + ("multi-line" if multi else "single-line") + "|" + ("ends-at-line-start" if e and text[e - 1:e] == "\n" else "other"),
                             {"part": "locstr", "text": text, "span": [b, e], "expected": "a 1-based end-exclusive range designating the span", "observed": s})
    return n, nt, fails, counts


# ------------------------------------------------------------------ (3) layouts
# token sequences: (text, located?) ; located tokens get a node whose location must be exactly the token
def T(text, loc=False):
    return (text, loc)


PROGRAMS = {
    "scalars": [T("int"), T("g0", True), T(";"), T("export"), T("function"), T("f"), T("("), T("int"), T("a", True), T(","), T("float"), T("b", True), T(")"),
                T("->"), T("int"), T("{"), T("int"), T("v", True), T("="), T("a", True), T("+"), T("12", True), T(";"), T("v", True), T("="), T("v", True), T("*"),
                T("2.5", True), T(";"), T("++"), T("v", True), T(";"), T("v", True), T("--"), T(";"), T("return"), T("v", True), T(";"), T("}")],
    "access": [T("struct"), T("SS"), T("{"), T("int"), T("fld", True), T(";"), T("}"), T("export"), T("function"), T("f"), T("("), T("float4"), T("w", True), T(","), T("SS"),
               T("s", True), T(","), T("int"), T("i", True), T(")"), T("->"), T("float"), T("{"), T("int[3]"), T("arr", True), T(";"), T("arr", True), T("["), T("i", True), T("]"),
               T("="), T("s", True), T("."), T("fld", True), T(";"), T("w", True), T("."), T("xy", True), T("="), T("float2"), T("("), T("1.0", True), T(","), T("0x10", True), T(")"), T(";"),
               T("return"), T("w", True), T("["), T("2", True), T("]"), T(";"), T("}")],
    "calls": [T("function"), T("g"), T("("), T("int"), T("p", True), T(","), T("int"), T("q", True), T(")"), T("->"), T("int"), T("{"), T("return"), T("p", True), T("-"), T("q", True), T(";"), T("}"),
              T("export"), T("function"), T("f"), T("("), T("int"), T("a", True), T(")"), T("->"), T("int"), T("{"), T("if"), T("("), T("a", True), T("<"), T("3", True), T(")"), T("{"),
              T("a", True), T("+="), T("g"), T("("), T("a", True), T(","), T("007", True), T(")"), T(";"), T("}"), T("return"), T("a", True), T(";"), T("}")],
    # children that are merged out of source order (while/do visit the body before the condition; a module visits its
    # declarations and types before its functions whatever their order in the text)
    "loops": [T("export"), T("function"), T("f"), T("("), T("int"), T("n", True), T(")"), T("->"), T("int"), T("{"), T("int"), T("t", True), T("="), T("0", True), T(";"),
              T("while"), T("("), T("t", True), T("<"), T("n", True), T(")"), T("{"), T("t", True), T("="), T("t", True), T("+"), T("2", True), T(";"), T("}"),
              T("do"), T("{"), T("n", True), T("-="), T("1", True), T(";"), T("}"), T("while"), T("("), T("n", True), T(">"), T("t", True), T(")"),
              T("if"), T("("), T("t", True), T(")"), T("{"), T("n", True), T("="), T("3", True), T(";"), T("}"), T("else"), T("{"), T("n", True), T("="), T("4", True), T(";"), T("}"),
              T("return"), T("n", True), T(";"), T("}")],
    "decl-after": [T("export"), T("function"), T("f"), T("("), T("int"), T("a", True), T(")"), T("->"), T("int"), T("{"), T("return"), T("a", True), T("+"), T("g1", True), T(";"), T("}"),
                   T("int"), T("g1", True), T(";"), T("struct"), T("SL"), T("{"), T("float"), T("lf", True), T(";"), T("}"), T("float[2]"), T("g2", True), T(";")],
    # every spelling of a literal the lexer knows (suffix, exponent, bare fraction, hex with either prefix case, octal); a literal
    # as the last token of a declaration, of an argument list and of a return
    "literals": [T("export"), T("function"), T("f"), T("("), T("float"), T("x", True), T(")"), T("->"), T("float"), T("{"), T("float"), T("s", True), T("="), T("2.5f", True), T(";"),
                 T("float"), T("u", True), T("="), T("x", True), T("*"), T("1e3", True), T("+"), T(".5", True), T("-"), T("3.", True), T("*"), T("1.5e-2f", True), T(";"),
                 T("int"), T("k", True), T("="), T("0XaB", True), T("+"), T("017", True), T("+"), T("0", True), T(";"),
                 T("return"), T("s", True), T("+"), T("u", True), T("*"), T("float"), T("("), T("k", True), T(")"), T("+"), T("0.25f", True), T(";"), T("}")],
    "unlocated-first": [T("function"), T("g"), T("("), T(")"), T("->"), T("int"), T("{"), T("return"), T("4", True), T(";"), T("}"),
                        T("export"), T("function"), T("f"), T("("), T("int"), T("a", True), T(")"), T("->"), T("int"), T("{"), T("int"), T("x", True), T("="), T("g"), T("("), T(")"), T("+"), T("a", True), T(";"),
                        T("{"), T("g"), T("("), T(")"), T(";"), T("a", True), T("="), T("a", True), T("+"), T("1", True), T(";"), T("}"),
                        T("for"), T("("), T(";"), T(";"), T(")"), T("{"), T("a", True), T("="), T("g"), T("("), T(")"), T("*"), T("x", True), T(";"), T("break"), T(";"), T("}"),
                        T("while"), T("("), T("g"), T("("), T(")"), T("<"), T("a", True), T(")"), T("{"), T("}"), T("return"), T("g"), T("("), T(")"), T("+"), T("x", True), T(";"), T("}")],
    "short-decl": [T("export"), T("function"), T("f"), T("("), T("int"), T("a", True), T(")"), T("->"), T("int"), T("{"), T("int"), T("v", True), T("="), T("a", True), T(";"),
                   T("return"), T("v", True), T("++"), T(";"), T("}")],
    "short-loop": [T("export"), T("function"), T("f"), T("("), T("int"), T("n", True), T(")"), T("->"), T("int"), T("{"), T("for"), T("("), T("int"), T("i", True), T("="), T("0", True), T(";"),
                   T("i", True), T("<"), T("n", True), T(";"), T("--"), T("n", True), T(")"), T("{"), T("}"), T("return"), T("n", True), T(";"), T("}")],
}
# redeclaration program: (text, located, role) role 'first'/'second' marks the two declarations' hull tokens
REDECL = [T("export"), T("function"), T("f"), T("("), T("int"), T("a", True), T(")"), T("->"), T("int"), T("{"), T("int"), ("vv", True, "first"), T("="), ("1", True, "first"), T(";"),
          T("{"), T("int"), ("vv", True, "second"), T("="), ("a", True, "second"), T("+"), ("22", True, "second"), T(";"), T("}"), T("return"), T("a", True), T(";"), T("}")]

GAPS = ["\t", "\n", "\n\n", "  \n\t ", "\r\n"]
LEADS = ["", "\n", "  ", "\n\n\t", "\r\n"]


def render_layout(tokens, gaps, lead):
    """-> (source, [(begin, end)] per token)"""
    out = lead
    offs = []
    for i, tok in enumerate(tokens):
        b = len(out)
        out += tok[0]
        offs.append((b, len(out)))
        if i < len(tokens) - 1:
            out += gaps[i]
    return out, offs


def layouts(ntok, maxdev):
    ng = ntok - 1
    yield [" "] * ng
    for nd in range(1, maxdev + 1):
        for where in itertools.combinations(range(ng), nd):
            for choice in itertools.product(GAPS, repeat=nd):
                g = [" "] * ng
                for w, c in zip(where, choice):
                    g[w] = c
                yield g


def token_composites(tokens):
    """-> [(first token index, last located token index, node class)] for member accesses and indexings in a token sequence."""
    out = []
    for i, t in enumerate(tokens):
        if t[1] and i + 2 < len(tokens) and tokens[i + 1][0] == "." and tokens[i + 2][1]:
            out.append((i, i + 2, "MemberAccessExpression"))
        if t[1] and i + 2 < len(tokens) and tokens[i + 1][0] == "[" and t[0][0].isalpha():
            depth, j = 0, i + 1
            while j < len(tokens):
                if tokens[j][0] == "[":
                    depth += 1
                elif tokens[j][0] == "]":
                    depth -= 1
                    if depth == 0:
                        break
                j += 1
            last = max(k for k in range(i + 2, j) if tokens[k][1])
            out.append((i, last, "ArrayExpression"))
    return out


def located_nodes(tree):
    """All AST nodes with a known location: (begin, end, class name)."""
    out = []
    seen = set()

    def walk(n, ctx=None):
        if id(n) in seen:
            return
        seen.add(id(n))
        loc = n.GetLocation()
        if not loc.IsUnknown:
            out.append((loc.GetBegin(), loc.GetEnd(), type(n).__name__))
        try:
            n.ForEachChild(walk)
        except Exception:
            pass
    walk(tree)
    return out


def cover_violations(tree):
    bad = []
    seen = set()

    def walk(n, ctx=None):
        if id(n) in seen:
            return
        seen.add(id(n))
        kids = []

        def col(c, ctx=None):
            kids.append(c)
        try:
            n.ForEachChild(col)
        except Exception:
            return
        loc = n.GetLocation()
        for c in kids:
            cl = c.GetLocation()
            if not cl.IsUnknown:
                if loc.IsUnknown or loc.GetBegin() > cl.GetBegin() or loc.GetEnd() < cl.GetEnd():
                    bad.append((type(n).__name__, type(c).__name__))
            walk(c)
    walk(tree)
    return bad


_PARSER = None


def module_parser():
    global _PARSER
    if _PARSER is None:
        from nsl import parser as P
        with pool.quiet():
            _PARSER = P.NslParser()
    return _PARSER


def w_layout(job):
    from nsl.passes import UpdateLocations

    name, maxdev, shard, nshards = job
    tokens = PROGRAMS[name]
    fails, counts = [], {}
    n = nt = 0

    def fail(key, rec):
        counts[key] = counts.get(key, 0) + 1
        if counts[key] <= 2:
            rec["key"] = key
            fails.append(rec)

    p = module_parser()
    idx = 0
    for gaps in layouts(len(tokens), maxdev):
        for lead in LEADS:
            idx += 1
            if idx % nshards != shard:
                continue
            src, offs = render_layout(tokens, gaps, lead)
            n += 1
            if "\n" in src:
                nt += 1
            want = sorted(o for o, t in zip(offs, tokens) if t[1])
            try:
                with pool.quiet():
                    tree = p.Parse(src)
                got = sorted((b, e) for b, e, _ in located_nodes(tree))
            except BaseException as ex:
                fail(f"C20|layout|parse-failed|{name}", {"part": "layout", "program": name, "source": src, "expected": "parses", "observed": type(ex).__name__})
                continue
            if got != want:
                extra = sorted(set(got) - set(want))
                missing = sorted(set(want) - set(got))
                what = []
                for b, e in missing[:3]:
                    what.append(f"token {src[b:e]!r}@{b}-{e} has no node with that range")
                for b, e in extra[:3]:
                    what.append(f"a node claims {b}-{e} = {src[b:e]!r}")
                mtoks = sorted({src[b:e] for b, e in missing})
                fail(f"C20|layout|node-range|{name}|after:" + ",".join(sorted({_prev_tok(tokens, offs, b) for b, e in missing}))[:60],
                     {"part": "layout", "program": name, "source": src, "expected": "every located token is the exact range of one node", "observed": "; ".join(what)})
                continue
            # hull after UpdateLocations
            try:
                with pool.quiet():
                    UpdateLocations.GetPass().Process(tree)
                bad = cover_violations(tree)
            except BaseException as ex:
                bad = [("UpdateLocations", type(ex).__name__)]
            if bad:
                fail(f"C20|layout|hull|{name}|{bad[0][0]}>{bad[0][1]}", {"part": "layout", "program": name, "source": src,
                     "expected": "after UpdateLocations every node covers its located children", "observed": str(bad[:3])})
                continue
            wild = [(b, e, c) for b, e, c in located_nodes(tree) if not (0 <= b <= e <= len(src))]
            if wild:
                fail(f"C20|layout|range-outside-the-text|{name}|{wild[0][2]}", {"part": "layout", "program": name, "source": src,
                     "expected": "every known range lies inside the text", "observed": str(wild[:3])})
                continue
            # composites read off the TOKENS (not off the tree's own notion of children): `x . member` and `x [ ... ]` are covered
            # from the first character of x to the last character of the member / the index expression
            nodes = located_nodes(tree)
            for i, j, cls in token_composites(tokens):
                b, e = offs[i][0], offs[j][1]
                if not any(c == cls and nb <= b and ne >= e for nb, ne, c in nodes):
                    have = [(nb, ne) for nb, ne, c in nodes if c == cls and nb == b]
                    fail(f"C20|layout|composite-does-not-cover-its-tokens|{name}|{cls}", {"part": "layout", "program": name, "source": src,
                         "expected": f"a {cls} covering {b}-{e} = {src[b:e]!r}", "observed": f"{cls} nodes starting there: {have} = {[src[x:y] for x, y in have]}"})
                    break
    return n, nt, fails, counts


def _prev_tok(tokens, offs, b):
    for i, (o, t) in enumerate(zip(offs, tokens)):
        if o[0] == b:
            return tokens[i - 1][0] if i else "^"
    return "?"


def fmt_range(src, b, e):
    l1, l2 = ref_line(src, b), ref_line(src, e)
    s1, s2 = ref_line_start(src, l1), ref_line_start(src, l2)
    if l1 == l2:
        return f"{l1 + 1}:{b - s1 + 1}-{e - s1 + 1}"
    return f"{l1 + 1}:{b - s1 + 1}-{l2 + 1}:{e - s2 + 1}"


def w_diag(job):
    """The redeclaration diagnostic: both printed ranges must be the hulls of the two declarations."""
    from nsl import Errors

    maxdev, shard, nshards = job
    fails, counts = [], {}
    n = nt = 0
    logged = []
    o1, o2 = Errors.ErrorHandler.Log, Errors.NullErrorHandler.Log

    def L1(self, text, msg):
        logged.append(text)
        return o1(self, text, msg)

    def L2(self, *a):
        if a:
            logged.append(a[0])

    Errors.ErrorHandler.Log, Errors.NullErrorHandler.Log = L1, L2
    try:
        idx = 0
        for gaps in layouts(len(REDECL), maxdev):
            for lead in LEADS:
                idx += 1
                if idx % nshards != shard:
                    continue
                src, offs = render_layout(REDECL, gaps, lead)
                n += 1
                nt += 1
                del logged[:]
                res = compile_src(src)
                msgs = [m for m in logged if "already declared" in m]
                hull = {}
                for o, t in zip(offs, REDECL):
                    if len(t) > 2:
                        b, e = hull.get(t[2], (o[0], o[1]))
                        hull[t[2]] = (min(b, o[0]), max(e, o[1]))
                want = f"The variable 'vv' ({fmt_range(src, *hull['second'])}) is already declared here {fmt_range(src, *hull['first'])}"
                if res.status != "reject":
                    key = "C20|diag|redeclaration-not-rejected"
                    counts[key] = counts.get(key, 0) + 1
                    if counts[key] <= 2:
                        fails.append({"key": key, "part": "diag", "source": src, "expected": "rejected", "observed": res.cls()})
                elif msgs != [want]:
                    multi = "multi-line" if ref_line(src, hull["second"][0]) != ref_line(src, hull["second"][1]) or ref_line(src, hull["first"][0]) != ref_line(src, hull["first"][1]) else "single-line"
                    key = f"C20|diag|redeclaration-text|{multi}"
                    counts[key] = counts.get(key, 0) + 1
                    if counts[key] <= 2:
                        fails.append({"key": key, "part": "diag", "source": src, "expected": want, "observed": str(msgs)})
    finally:
        Errors.ErrorHandler.Log, Errors.NullErrorHandler.Log = o1, o2
    return n, nt, fails, counts



def rejob(x):
    """Re-execute one worker job (used by ./check --rejob for history-dependent failures)."""
    def tup(v):
        return tuple(tup(y) for y in v) if isinstance(v, list) else v
    return globals()[x[0]](tup(x[1]))


def _dispatch(job):
    fn, arg = job
    return fn(arg)


def run(tier, seed):
    thorough = tier == "thorough"
    jobs = []
    ns = 8     # hermetic jobs: a fresh interpreter each, keep them coarse
    maxlen = 12 if thorough else 10
    for s in range(ns):
        jobs.append((w_mapping, (maxlen, s, ns, 8 if thorough else 7)))
    for name, toks in PROGRAMS.items():
        dev = 2
        if thorough and len(toks) <= 32:
            dev = 3
        for s in range(ns):
            jobs.append((w_layout, (name, dev, s, ns)))
    for s in range(ns):
        jobs.append((w_diag, (2, s, ns)))
    rot = seed % len(jobs) if seed else 0
    jobs = jobs[rot:] + jobs[:rot]
    res = pool.pmap(_dispatch, jobs)
    n = nt = 0
    failures, counts, per = [], {}, {}
    for (fn, arg), (a, b, fl, c) in zip(jobs, res):
        for _f in fl:
            if isinstance(_f, dict) and "key" in _f:
                _f.setdefault("job", {"fn": "nslmc.props.c20:rejob", "arg": [fn.__name__, arg]})
        n += a
        nt += b
        per[fn.__name__] = per.get(fn.__name__, 0) + a
        failures += fl
        for k, v in c.items():
            counts[k] = counts.get(k, 0) + v
    seen, uniq = set(), []
    for f in failures:
        if f["key"] not in seen:
            seen.add(f["key"])
            uniq.append(f)
    g = [" "] * (len(PROGRAMS["short-decl"]) - 1)
    g[seed % len(g)] = "\n\n"
    g[(seed * 7 + 3) % len(g)] = "\t"
    src, offs = render_layout(PROGRAMS["short-decl"], g, LEADS[seed % len(LEADS)])
    samples = [{"text": "a\n\naa\n", "offset": 3, "reference_line": ref_line("a\n\naa\n", 3)},
               {"layout_source": src, "located_token_ranges": [o for o, t in zip(offs, PROGRAMS["short-decl"]) if t[1]]},
               {"diagnostic_program": " ".join(t[0] for t in REDECL)}]
    cov = {"evaluations": n, "distinct_nontrivial": nt,
           "rule": f"(1) every text of length <= {maxlen} over {{a, newline}} x every offset and every line through SourceMapping; (2) every span of "
                   "the texts of length <= 7 (thorough 8) through Location.__str__, mapped back by the printed convention; (3) five token "
                   "sequences covering every located construct and one redeclaration program, under every placement of <= 2 (thorough: 3 "
                   "for the short programs) deviating gaps from {tab, newline, blank line, mixed} times 4 leading texts: node ranges vs the "
                   "renderer's token offsets, parent hulls after UpdateLocations, and the exact text of the redeclaration diagnostic. "
                   "Non-trivial = cases whose text contains a line break (mapping/layout) and all span/diagnostic cases.",
           "samples": samples, "exhaustive": True, "bound": {"text_len": maxlen, "layout_deviations": 2, "gap_alphabet": GAPS, "leads": LEADS},
           "per_part": per, "failing_cases_per_key": counts}
    return {"level": LEVEL, "coverage": cov, "failures": uniq,
            "assumptions": ["the printed convention (1-based, end-exclusive) is taken as given; checked is that the range designates the entity",
                            "the range of a declaration with initialiser is the hull of its name and the located parts of the initialiser",
                            "diagnostics are read through an interposed ErrorHandler.Log / NullErrorHandler.Log (the statement does not require printing)"]}


def replay(rec, verbose=True):
    part = rec["part"]
    if part == "mapping" or part == "locstr":
        from nsl import ast
        sm = ast.SourceMapping(rec["text"])
        if "offset" in rec:
            got = sm.GetLineFromOffset(rec["offset"])
            bad = got != ref_line(rec["text"], rec["offset"])
        elif "line" in rec:
            got = sm.GetLineStartOffset(rec["line"])
            bad = got != ref_line_start(rec["text"], rec["line"])
        else:
            got = str(ast.Location(tuple(rec["span"]), sm))
            bad = loc_to_span(rec["text"], got) != tuple(rec["span"])
        if verbose:
            print(repr(rec["text"]), {k: rec[k] for k in ("offset", "line", "span") if k in rec}, "observed", got)
        return bad
    if part == "layout":
        name = rec["program"]
        src = rec["source"]
        with pool.quiet():
            tree = module_parser().Parse(src)
        got = sorted((b, e) for b, e, _ in located_nodes(tree))
        # recompute expected offsets by scanning the tokens in order
        pos, want = 0, []
        for t in PROGRAMS[name]:
            b = src.index(t[0], pos)
            pos = b + len(t[0])
            if t[1]:
                want.append((b, pos))
        bad = got != sorted(want)
        if not bad:
            from nsl.passes import UpdateLocations
            with pool.quiet():
                UpdateLocations.GetPass().Process(tree)
            bad = bool(cover_violations(tree))
        if verbose:
            print(src)
            print("expected ranges", sorted(want), "\nobserved ranges", got)
        return bad
    if part == "diag":
        from nsl import Errors
        logged = []
        o1, o2 = Errors.ErrorHandler.Log, Errors.NullErrorHandler.Log
        Errors.ErrorHandler.Log = lambda self, text, msg: (logged.append(text), o1(self, text, msg))[1]
        Errors.NullErrorHandler.Log = lambda self, *a: logged.append(a[0]) if a else None
        try:
            res = compile_src(rec["source"])
        finally:
            Errors.ErrorHandler.Log, Errors.NullErrorHandler.Log = o1, o2
        msgs = [m for m in logged if "already declared" in m]
        if verbose:
            print(rec["source"], "\nexpected", rec["expected"], "\nobserved", msgs, res.cls())
        return res.status != "reject" or msgs != [rec["expected"]]
    return False
