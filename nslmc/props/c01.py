"""C01 - compiled programs compute what the source says (scalar core, VM)."""
from ._famprop import make

FAMS = ["E", "S", "D", "R", "M", "G"]

run, replay = make(
    "C01", "ref", FAMS,
    rule="Families enumerated completely (DESIGN.md C01): E = all binary expression trees with <=2 operators (thorough: 3 over a "
         "reduced leaf set) over 13 operators and leaves {a,b int; x float; 2; 0.5; -3}, each rendered with minimal and with full "
         "parentheses, on the complete product of the input grids of the variables it uses; S = all statement skeletons with <=5 "
         "(thorough 6) nodes over {atom, if, if/else, for, while, do, block, break, continue, return} with a trace variable; "
         "D = storage location x assignment form x right-hand side, with read-back of every location in scope; R = declarations "
         "re-executed in loops. Each case is compiled (optimisation off), linked, run on a fresh VM per input and compared with the "
         "reference interpreter (return value and every global).",
    nontrivial_note="distinct_nontrivial counts (program, input) pairs whose reference result is specified (not UNSPECIFIED by R1) - "
                    "every such pair is a distinct program text or a distinct input.",
    assumptions=["reference interpreter nslmc/refsem.py encodes the C-like semantics listed in the statement",
                 "cases the statements leave open (R1 in DESIGN.md) are executed but not compared",
                 "floats are small dyadic rationals, so binary32/binary64 agree exactly"],
    bound=lambda tier: {"expr_ops": 2 if tier == "quick" else 3, "stmt_nodes": 5 if tier == "quick" else 6},
)
