"""Textbook LEB128 (reference model for C19 / the wasm decoder).  No code shared with nsl."""


class LebError(Exception):
    pass


def decode_unsigned(data, pos=0, bits=32):
    """Return (value, new_pos).  Rejects over-long encodings like the wasm spec does."""
    result = 0
    shift = 0
    maxbytes = (bits + 6) // 7
    n = 0
    while True:
        if pos >= len(data):
            raise LebError("truncated uleb128")
        b = data[pos]
        pos += 1
        n += 1
        if n > maxbytes:
            raise LebError("uleb128 too long")
        result |= (b & 0x7F) << shift
        shift += 7
        if not (b & 0x80):
            break
    if result >> bits:
        raise LebError("uleb128 out of range")
    return result, pos


def decode_signed(data, pos=0, bits=32):
    result = 0
    shift = 0
    maxbytes = (bits + 6) // 7
    n = 0
    while True:
        if pos >= len(data):
            raise LebError("truncated sleb128")
        b = data[pos]
        pos += 1
        n += 1
        if n > maxbytes:
            raise LebError("sleb128 too long")
        result |= (b & 0x7F) << shift
        shift += 7
        if not (b & 0x80):
            if b & 0x40:
                result -= 1 << shift
            break
    if not (-(1 << (bits - 1)) <= result < (1 << (bits - 1))):
        raise LebError("sleb128 out of range")
    return result, pos


def encode_unsigned(v):
    assert v >= 0
    out = bytearray()
    while True:
        b = v & 0x7F
        v >>= 7
        if v:
            out.append(b | 0x80)
        else:
            out.append(b)
            return bytes(out)


def encode_signed(v):
    out = bytearray()
    while True:
        b = v & 0x7F
        v >>= 7
        if (v == 0 and not (b & 0x40)) or (v == -1 and (b & 0x40)):
            out.append(b)
            return bytes(out)
        out.append(b | 0x80)
