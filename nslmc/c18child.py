"""C18 child: explores histories of compilations inside ONE interpreter configuration.

    python -m nslmc.c18child <snapshot root> <work dir> <mode> <out.json> [<baseline.json>]

mode 'baseline:<k>'  : fresh process, compile probe k only, print its output (used once per probe)
mode 'search:<dedup depth>:<nodedup depth>' : BFS over histories.  The interpreter imports nsl once
(pristine process-global state); every history is replayed in a fork()ed copy of that pristine
process, so process-global state mutated by one history cannot leak into another.  Each
transition = Compiler().Compile(source, options) of one probe with a fresh Compiler; its output
(listing + wasm bytes, or the failure class) must equal the baseline of that probe; the canonical
state = deep snapshot of all process-global mutable state of the nsl (and ply) modules plus the
on-disk parser table cache."""
import hashlib
import io
import json
import os
import pickle
import sys
import types as pytypes

SOURCES = [
    ("scalar", "export function f(int a, float x) -> float { return a * 2 + x; }\n"),
    ("loops", "export function f(int a) -> int { int t = 1; for (int i = 0; i < 3; ++i) { int v; v = v + i; t = t * 3 + v; if (t > 50) { break; } } while (a > 0) { a = a - 1; t = t + 1; } return t; }\n"),
    ("struct-globals", "struct SG { int n; float2 v; }\nint g0;\nSG gs;\nint[2] ga;\nexport function f(int a) -> int { gs.n = a; gs.v.x = 1.5; ga[1] = g0 + a; g0 = ga[1]; return gs.n + g0; }\n"),
    ("overloads", "function h(int p) -> int { return p + 1; }\nfunction h(float p) -> int { return 2; }\nfunction h(float2 p) -> int { return 3; }\nexport function f(int a, float x) -> int { return h(a) + h(x) * 10 + h(float2(x, x)) * 100; }\n"),
    ("vectors", "export function f(float4 v, float3x3 m, float3 w) -> float3 { float3 r = m * w; v.xz = v.yw; r[1] = v.x; return r + w * 2.0; }\n"),
    ("imports", 'import "la";\nimport "lb";\nimport "lc";\nexport function f(int a) -> int { return fa(a) + fb(a) * 10 + fc(a) * 100; }\n'),
    # forced collisions: the same struct / function / global names as earlier sources, with different definitions
    ("struct-globals-variant", "struct SG { float2 v; int extra; int n; }\nfloat g0;\nSG gs;\nint[3] ga;\nexport function f(int a) -> int { gs.n = a + 1; gs.extra = 7; ga[2] = a; g0 = 0.5; return gs.n + gs.extra + ga[2]; }\n"),
    ("overloads-variant", "function h(int p) -> float { return 0.5; }\nfunction h(float2 p, int q) -> int { return 3; }\nexport function f(int a, float x) -> float { return h(a) + h(float2(x, x), a); }\n"),
    # several functions the wasm back end translates (export and function order), named so that their hashes differ
    ("many-exports", "export function fa(int a) -> int { return a + 1; }\nexport function zeta(float x) -> float { return x * 2.0; }\nexport function fc(int a, int b) -> int { return a * b; }\n"
                     "export function mid(float x, int a) -> float { return x + 0.5; }\nexport function b2(int a) -> int { return a - 7; }\n"),
    # module-level variables named like the parameters / locals of the other sources, and the other way round
    ("globals-named-like-locals", "int a;\nfloat x;\nint t;\nint i;\nint v;\nfloat3 w;\nfloat3 r;\nexport function f(int q) -> int { a = q; t = a + 1; i = t; v = i; x = 0.5; return t + v; }\n"),
    ("locals-named-like-globals", "export function f(int g0, float gs) -> float { int ga = g0 + 1; float n = gs; return ga + n; }\n"),
    # a long bracket-free sum and a deeply nested source (how much stack a compilation finds must not depend on earlier ones)
    ("long-sum", "export function f(int a) -> int { return " + " + ".join(["a"] * 150) + "; }\n"),
    ("deep-nesting", "export function f(int a) -> int { " + "".join("if (a > %d) { " % k for k in range(40)) + "a = a + 1; " + "} " * 40 + "return a; }\n"),
    ("imports-with-clashing-struct", 'import "ld";\nimport "le";\nimport "lf";\nexport function f(int a) -> float { Light l; l.intensity = a; return l.intensity; }\n'),
    # parameters without a name (placeholder names), twice, in different positions
    ("unnamed-parameters", "function g(float x, int) -> float { return x * 2.0; }\nfunction h(int, float, int q) -> int { return q + 1; }\nexport function f(int a, float x) -> float { return g(x, a) + h(a, x, a); }\n"),
    ("unnamed-parameter-first", "function g(int, float y) -> float { return y + 0.5; }\nexport function f(int a, float x) -> float { return g(a, x); }\n"),
    # rejected by each of the validation passes that follow typing
    ("rejected-bounds", "export function f(int a) -> int { int[2] t; t[5] = a; return t[0]; }\n"),
    ("rejected-swizzle", "export function f(float2 v) -> float { return v.z; }\n"),
    ("rejected-flow", "export function f(int a) -> int { break; return a; }\n"),
    ("rejected-index-type", "export function f(int a, float x) -> int { int[2] t; return t[x + 0.5]; }\n"),
    ("rejected-redeclaration", "export function f(int a) -> int { int a = 2; return a; }\n"),
    ("rejected-typing", "export function f(int a, float2 v) -> int { return a + v; }\n"),
    ("fails-lowering", "function g(int a) -> int;\nexport function f(int a) -> int { return a; }\n"),
]
LIBS = {"la": "function fa(int a) -> int { return a + 1; }\n", "lb": "function fb(int a) -> int { return a + 2; }\n", "lc": "function fc(int a) -> int { return a + 3; }\n",
        # two libraries that define a struct of the same name differently (whatever the compiler makes of importing both, it makes the same of it every time)
        "ld": "struct Light { float intensity; }\nfunction fd(Light l) -> float { return l.intensity; }\n",
        "le": "struct Light { int intensity; float range; }\nfunction fe(Light l) -> float { return l.range; }\n",
        "lf": "struct Light { float range; int intensity; int kind; }\nfunction ff(Light l) -> int { return l.kind; }\n"}
OPTIONS = [("plain", {}), ("optimize", {"optimize": True}), ("wasm", {"wasm": True})]
PROBES = [(si, oi) for si in range(len(SOURCES)) for oi in range(len(OPTIONS))]


class _Null:
    def write(self, s):
        return len(s)

    def flush(self):
        pass


def compile_probe(k):
    """-> JSON-able output of one compilation with a fresh Compiler."""
    from nsl import Compiler, LinearIR

    si, oi = PROBES[k]
    src, opts = SOURCES[si][1], dict(OPTIONS[oi][1])
    o, e = sys.stdout, sys.stderr
    sys.stdout, sys.stderr = _Null(), _Null()
    try:
        try:
            res = Compiler.Compiler().Compile(src, opts)
        except BaseException as ex:
            import traceback
            fr = [f for f in traceback.extract_tb(ex.__traceback__) if os.sep + "nsl" + os.sep in f.filename]
            return ["fail", type(ex).__name__, fr[-1].name if fr else "?"]
        if res is None:
            return ["fail", "None", "Compile"]
        out = []

        def pr(*a, end="\n"):
            out.append(" ".join(str(x) for x in a) + end)
        p = LinearIR.InstructionPrinter(pr)
        for f in res.IRModule.Functions.values():
            p.Print(f)
        wasm = None
        if res.WasmModule is not None:
            try:
                buf = io.BytesIO()
                res.WasmModule.WriteTo(buf)
                wasm = buf.getvalue().hex()
            except BaseException as ex:
                wasm = "write-fails:" + type(ex).__name__
        return ["ok", "".join(out), wasm, sorted(res.IRModule.Imports)]
    finally:
        sys.stdout, sys.stderr = o, e


def snap(o, depth=0, seen=None):
    seen = seen if seen is not None else set()
    if isinstance(o, (int, float, str, bool, bytes, type(None))):
        return repr(o)
    if id(o) in seen:
        return "<cycle>"
    if depth > 8:
        return "<deep>"
    seen = seen | {id(o)}
    if isinstance(o, dict):
        items = []
        for k, v in o.items():
            items.append((snap(k, depth + 1, seen), snap(v, depth + 1, seen)))
        return "{" + ",".join(f"{k}:{v}" for k, v in sorted(items)) + "}"
    if isinstance(o, (list, tuple)):
        return "[" + ",".join(snap(x, depth + 1, seen) for x in o) + "]"
    if isinstance(o, (set, frozenset)):
        return "set(" + ",".join(sorted(snap(x, depth + 1, seen) for x in o)) + ")"
    if isinstance(o, io.StringIO):
        return "StringIO(" + repr(o.getvalue()) + ")"
    if isinstance(o, (pytypes.FunctionType, pytypes.BuiltinFunctionType, pytypes.MethodType, pytypes.ModuleType, type)):
        return f"<{getattr(o, '__qualname__', getattr(o, '__name__', '?'))}>"
    if hasattr(o, "__dict__"):
        return f"{type(o).__name__}(" + snap(vars(o), depth + 1, seen) + ")"
    if hasattr(o, "__slots__"):
        return f"{type(o).__name__}[" + ",".join(snap(getattr(o, s, None), depth + 1, seen) for s in o.__slots__) + "]"
    return f"<{type(o).__name__}>"


def global_state(root):
    """Canonical form of the process-global mutable state of the nsl / ply modules + table cache on disk."""
    parts = []
    for name in sorted(sys.modules):
        if not (name == "nsl" or name.startswith("nsl.") or name.startswith("ply")):
            continue
        mod = sys.modules[name]
        if mod is None:
            continue
        for k, v in sorted(vars(mod).items()):
            if k.startswith("__"):
                continue
            if isinstance(v, pytypes.ModuleType):
                continue
            if isinstance(v, pytypes.FunctionType):
                if v.__module__ == name:
                    parts.append((name, k, "defaults", snap(v.__defaults__), snap(v.__kwdefaults__)))
                continue
            if isinstance(v, type):
                if v.__module__ != name:
                    continue
                for ck, cv in sorted(vars(v).items()):
                    if ck.startswith("__") and ck not in ("__defaults__",):
                        continue
                    if isinstance(cv, pytypes.FunctionType):
                        parts.append((name, k, ck, "defaults", snap(cv.__defaults__), snap(cv.__kwdefaults__)))
                    elif isinstance(cv, (staticmethod, classmethod, property)):
                        continue
                    else:
                        parts.append((name, k, ck, snap(cv)))
                continue
            if callable(v) and not isinstance(v, (list, dict, set)):
                continue
            parts.append((name, k, snap(v)))
    disk = []
    for fn in ("parsetab.py", "parser.out"):
        p = os.path.join(root, "nsl", fn)
        disk.append((fn, hashlib.sha1(open(p, "rb").read()).hexdigest() if os.path.exists(p) else None))
    return hashlib.sha1(repr((parts, disk)).encode()).hexdigest()


_DISK0 = {}


def remember_disk(root):
    for fn in ("parsetab.py", "parser.out"):
        p = os.path.join(root, "nsl", fn)
        _DISK0[fn] = open(p, "rb").read() if os.path.exists(p) else None


def restore_disk(root):
    """The on-disk table cache is state a fork cannot roll back: reset it to this configuration's initial state."""
    for fn, data in _DISK0.items():
        p = os.path.join(root, "nsl", fn)
        if data is None:
            if os.path.exists(p):
                os.unlink(p)
        else:
            cur = open(p, "rb").read() if os.path.exists(p) else None
            if cur != data:
                with open(p, "wb") as f:
                    f.write(data)
    import importlib
    importlib.invalidate_caches()


def run_history(root, hist):
    """In a forked child: replay hist (list of probe indices); -> (output of the last compile, canonical state)."""
    restore_disk(root)
    r, w = os.pipe()
    pid = os.fork()
    if pid == 0:
        try:
            os.close(r)
            out = None
            for k in hist:
                out = compile_probe(k)
            data = pickle.dumps((out, global_state(root)))
            with os.fdopen(w, "wb") as f:
                f.write(data)
        finally:
            os._exit(0)
    os.close(w)
    with os.fdopen(r, "rb") as f:
        data = f.read()
    os.waitpid(pid, 0)
    if not data:
        return (["child-died"], "?")
    return pickle.loads(data)


def main():
    root, work, mode, outp = sys.argv[1:5]
    # the interpreter's default recursion limit stays: it is process state an earlier compilation could change
    sys.path.insert(0, os.path.dirname(os.path.dirname(os.path.abspath(__file__))))
    from nslmc import fastarena, snapshot
    fastarena.install()
    os.chdir(work)
    o, e = sys.stdout, sys.stderr
    sys.stdout, sys.stderr = _Null(), _Null()
    snapshot.activate(root, quiet_tables=False)
    import nsl.Compiler  # noqa: pristine import of the whole package, no compilation yet
    sys.stdout, sys.stderr = o, e
    if mode.startswith("baseline:"):
        k = int(mode.split(":")[1])
        json.dump({"probe": k, "output": compile_probe(k)}, open(outp, "w"))
        return
    remember_disk(root)
    _, dd, nd = mode.split(":")
    dd, nd = int(dd), int(nd)
    base = json.load(open(sys.argv[5]))
    res = {"states": 1, "transitions": 0, "violations": [], "counts": {}, "closed": False, "max_depth": 0, "per_depth": [], "nodedup_histories": 0,
           "hashseed": os.environ.get("PYTHONHASHSEED"), "import_set_order": None, "samples": []}
    # which iteration order do the import sets have in this interpreter?
    res["import_set_order"] = [list({"la", "lb", "lc"}), list({"la", "lb"})]

    def check(hist, out):
        res["transitions"] += 1
        k = hist[-1]
        if out != base[str(k)]:
            si, oi = PROBES[k]
            what = "decision" if out[0] != base[str(k)][0] else ("listing" if out[0] == "ok" and out[1] != base[str(k)][1] else "wasm-bytes" if out[0] == "ok" and out[2] != base[str(k)][2] else "failure-class")
            key = f"C18|history|{what}-differs-from-baseline|probe={SOURCES[si][0]}/{OPTIONS[oi][0]}|after={'nothing' if len(hist) == 1 else SOURCES[PROBES[hist[-2]][0]][0] + '/' + OPTIONS[PROBES[hist[-2]][1]][0]}"
            res["counts"][key] = res["counts"].get(key, 0) + 1
            if res["counts"][key] <= 2:
                res["violations"].append({"key": key, "history": list(hist), "expected": str(base[str(k)])[:400], "observed": str(out)[:400]})

    # (1) BFS with canonical-state deduplication, to closure or depth dd
    _, init = run_history(root, [])
    seen = {init}
    frontier = [[]]
    depth = 0
    while frontier and depth < dd:
        nxt = []
        for h in frontier:
            for k in range(len(PROBES)):
                out, canon = run_history(root, h + [k])
                check(h + [k], out)
                if canon not in seen:
                    seen.add(canon)
                    nxt.append(h + [k])
                    if len(res["samples"]) < 3:
                        res["samples"].append(h + [k])
        depth += 1
        res["per_depth"].append(len(nxt))
        frontier = nxt
    res["states"] = len(seen)
    res["closed"] = not frontier
    res["max_depth"] = depth
    # (2) without relying on the snapshot: cumulative chains.  Chain i compiles all probes in the order rotated by i inside ONE
    #     forked interpreter; every compilation's output is checked, so each chain validates len(PROBES) transitions whose
    #     histories are the chain's prefixes.
    for i in range(nd):
        restore_disk(root)
        order = list(range(len(PROBES)))
        order = order[i % len(order):] + order[:i % len(order)]
        r, w = os.pipe()
        pid = os.fork()
        if pid == 0:
            try:
                os.close(r)
                outs = [compile_probe(k) for k in order]
                with os.fdopen(w, "wb") as f:
                    f.write(pickle.dumps(outs))
            finally:
                os._exit(0)
        os.close(w)
        with os.fdopen(r, "rb") as f:
            data = f.read()
        os.waitpid(pid, 0)
        outs = pickle.loads(data) if data else []
        res["nodedup_histories"] += 1
        for j, out in enumerate(outs):
            check(order[:j + 1], out)
    json.dump(res, open(outp, "w"))


if __name__ == "__main__":
    main()
