/* Arena allocator for CPython that never returns memory to the kernel.
 *
 * CPython >= 3.11 keeps interpreter frames in 16 KiB "data stack chunks" obtained from the
 * arena allocator (mmap) and frees a chunk the moment the call depth drops below it.  The nsl
 * compiler is deeply recursive (visitors), so the depth oscillates around chunk boundaries and
 * every oscillation is an mmap/munmap pair.  On this VM those calls serialise badly across
 * processes (a 16-way run is ~25x slower than one process).  This allocator serves 16 KiB and
 * 1 MiB requests from free lists inside one lazily committed reservation; anything else, and
 * any pointer it did not hand out, goes to mmap/munmap as before.  It changes performance only.
 */
#include <stddef.h>
#include <stdint.h>
#include <sys/mman.h>

#define REGION ((size_t)8 << 30)
#define SMALL ((size_t)16384)
#define LARGE ((size_t)1 << 20)

typedef struct node { struct node *next; } node;
static char *base, *top, *end;
static node *free_small, *free_large;

static void *sys_alloc(size_t size)
{
    void *p = mmap(NULL, size, PROT_READ | PROT_WRITE, MAP_PRIVATE | MAP_ANONYMOUS, -1, 0);
    return p == MAP_FAILED ? NULL : p;
}

static void *arena_alloc(void *ctx, size_t size)
{
    node **fl = size == SMALL ? &free_small : size == LARGE ? &free_large : NULL;
    (void)ctx;
    if (fl == NULL || base == NULL)
        return sys_alloc(size);
    if (*fl) {
        node *n = *fl;
        *fl = n->next;
        return n;
    }
    {
        uintptr_t t = ((uintptr_t)top + size - 1) & ~(uintptr_t)(size - 1);
        if (t + size > (uintptr_t)end)
            return sys_alloc(size);
        top = (char *)(t + size);
        return (void *)t;
    }
}

static void arena_free(void *ctx, void *ptr, size_t size)
{
    (void)ctx;
    if (base != NULL && (char *)ptr >= base && (char *)ptr < end && (size == SMALL || size == LARGE)) {
        node **fl = size == SMALL ? &free_small : &free_large;
        node *n = (node *)ptr;
        n->next = *fl;
        *fl = n;
        return;
    }
    munmap(ptr, size);
}

struct allocator { void *ctx; void *(*alloc)(void *, size_t); void (*free)(void *, void *, size_t); };

int nslmc_arena_fill(struct allocator *a)
{
    if (base == NULL) {
        void *p = mmap(NULL, REGION, PROT_READ | PROT_WRITE, MAP_PRIVATE | MAP_ANONYMOUS | MAP_NORESERVE, -1, 0);
        if (p == MAP_FAILED)
            return -1;
        base = top = (char *)p;
        end = base + REGION;
    }
    a->ctx = NULL;
    a->alloc = arena_alloc;
    a->free = arena_free;
    return 0;
}
